#!/bin/bash
# usage: tools/eval_wt.sh <worktree-with-change-applied> CHECK [CHECK...]  - run checks against a scratch worktree instead of /repo
# (VF_REPO), with evidence and replays redirected so that /verif/evidence keeps describing the unchanged tree.
wt=$1; shift
export VF_REPO=$wt VF_EVIDENCE_DIR=/dev/shm/ev_mut VF_REPLAY_DIR=/dev/shm/replays_mut/$(basename $wt)
rm -rf $VF_REPLAY_DIR
for c in "$@"; do
  out=$(/verif/check $c --tier ${TIER:-quick} 2>&1); rc=$?
  echo "== $(basename $wt) vs $c rc=$rc  $(echo "$out" | grep -E "^$c tier" | cut -c1-110)"
  echo "$out" | grep -E "VIOLATION-DETAIL|HARNESS" | head -${NLINES:-2} | cut -c1-300
done
