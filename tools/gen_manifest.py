#!/venv/bin/python
"""Generate /verif/MANIFEST.json from the table below (keeps the manifest valid at all times)."""
import json, os, sys
HERE = os.path.dirname(os.path.dirname(os.path.abspath(__file__)))

CHECKS = {
 "C13": dict(level="exploration",
   text="Metamorphic search: for every (file content, operator, literal) of an exhaustively enumerated small domain per column type, and for Hypothesis-generated multi-file tables over all column types and read APIs, the scan with pruning must equal the scan with pruning replaced by the identity; decoded manifest bounds must equal the true column min/max with the same Python type. Exhaustive on the small domain, sampled elsewhere - a search, not a proof.",
   note="Trusts pyarrow's filter evaluation as the un-pruned reference answer (C12 checks that against SQL semantics) and fastavro/json for the independent manifest read. Cross-type literals (Decimal, other precision, ints/floats around 2^53, datetime on date columns, bytes on strings) are part of the domain; where the pruned or the un-pruned scan raises there is no answer to compare.",
   technique="property-based testing (Hypothesis) + exhaustive small-domain enumeration, metamorphic oracle (pruning on vs off) and bounds round-trip", design="3/C13"),
}
CHECKS["C12"] = dict(level="exploration",
   text="Generated tables (all primitive column types, NULL/NaN/inf, empty and many files) x filters from the full operator/alias grammar x projection, each evaluated through 6 read APIs x checksum verification on/off; every returned multiset must equal a plain-Python three-valued (SQL NULL, IEEE NaN) reference evaluator over independently read rows, all APIs must agree, well-formed same-type filters must not raise and malformed filters must raise in every API. Sampled search with shrinking; no exhaustiveness claimed.",
   note="Reference is deliberately silent (differential only) for NaN inside an in/not_in value set and for literals of an incomparable type; cross-type numeric literals may raise. Rows 'as stored' come from an independent pyarrow.parquet read, so value conversion at append time is C11's subject, not C12's.",
   technique="property-based testing (Hypothesis) against a reference evaluator + differential across read APIs", design="3/C12")
CHECKS["C11"] = dict(level="exploration",
   text="Hypothesis histories of appends (record batches with exact / NULL / missing / unknown-key / wrong-typed / out-of-range values, or pre-built parquet files, under every kind of schema= argument, fresh or reused handles, schemaful and legacy schemaless tables). A raise must leave pointer, snapshot list, rows and reachable set unchanged (independent reader); an accepted append must read back exactly the values as represented by the declared type through every read API and the independent reader, values the type cannot represent must have been rejected, and equality/range filters on every column must agree with the reference evaluator. Sampled search with shrinking.",
   note="'As represented by the declared type' is an explicit function in the check (float32 round-trip, exact int<->float only, UTF-8 for str<->bytes); conversions whose admissibility the statement leaves open (bool->numeric, datetime->date, epoch ints into temporal columns) are not generated. Rejecting is always allowed. One known finding (schemaless legacy tables accept divergent schemas) is listed in known_findings.json.",
   technique="property-based testing (Hypothesis), model of accepted rows + independent reader + reference filter evaluator", design="3/C11")
CHECKS["C05"] = dict(level="exploration",
   text="Model-based search over operation histories (appends, deletes, expiries, snapshot deletions, open/committed/rolled-back transactions, planted orphans, ageing, collections with grace 0/1h/10h) crossed with 17 spellings of the table location. For each collection the set of files it deleted is compared with an independently computed reachable set over all retained snapshots and with the files of live transactions; a raising collection must have deleted nothing; every retained snapshot must read back identical rows; old unprotected orphans must be gone. Sampled, shrunk on failure.",
   note="Ages are set with utime; markers are kept fresh (a live transaction is one whose marker is < 24 h old). Local backend only in this check (S3 prefix spellings are covered in C20/C07 S3 variants).",
   technique="stateful property-based testing (Hypothesis-generated histories) against a reference model + independent reachability oracle", design="3/C05")
CHECKS["C09"] = dict(level="exploration",
   text="Model-based search: after every step of a generated history (appends, manifest-rewriting deletes, expiries, snapshot deletions incl. the current one, retention, failed commits, planted orphans + garbage collection) every retained snapshot is re-read by an independent reader (checksums verified) and compared with the file set and rows recorded at its commit; snapshot lookups by id and by timestamp (at / just before / just after each recorded timestamp) are compared with the model; every data and manifest file is hashed across the history to detect in-place rewrites; deleting the current snapshot must repoint to the most recently committed survivor.",
   note="A third of the histories let the clock step backwards between commits; timestamp lookups are only compared while the recorded timestamps are non-decreasing in commit order (the statement does not say which rule wins otherwise); everything stated in terms of commit recency (repointing, immutability, timestamp order while the clock did not step back) is checked throughout.",
   technique="stateful property-based testing (Hypothesis histories), reference model + independent reader invariants after every step", design="3/C09")
CHECKS["C15"] = dict(level="exploration",
   text="(a) Model-based search: an independent invariant checker reads the metadata JSON and all manifests after every step of generated histories (incl. multi-op transactions, retention, metadata-log bound, failed commits) under real-like, coarse and backwards clocks: current retained, parents are retained true ancestors, sequence numbers strictly increase in commit order and never exceed a non-decreasing last_sequence_number, snapshot_log only retained snapshots in commit order, carried entries keep their original adding snapshot and sequence number, deletes remove exactly the named files, expiry/snapshot deletion remove exactly the right snapshots, the metadata log names existing, actually superseded versions, contiguous, in order, within the bound. (b) exhaustive enumeration of all parent functions on <=5 nodes x all kept subsets for the repointing routine (1.09 M evaluations).",
   note="True ancestry comes from the model (the snapshot that was current at commit). (b) calls datashard.snapshot_manager.repoint_parents_to_surviving_ancestors directly and is skipped with a note if that symbol disappears.",
   technique="stateful property-based testing (Hypothesis histories) with an independent metadata invariant checker + exhaustive small-domain enumeration", design="3/C15")
CHECKS["C20"] = dict(level="exploration",
   text="Differential search: (a) generated storage-operation sequences over a key space with sibling-prefix and nested names run side by side on LocalStorageBackend and on S3StorageBackend over a strongly consistent in-memory S3 (results, not-found errors, listings confined to the named directory must be identical); (b) generated seek/read programs on the raw S3RangeFile vs io.FileIO and on open_seekable vs a local file over objects around the 1 MiB buffer boundary (bytes, return values, positions, errors identical; every Range in bounds; the raw reader never requests more than asked); (c) generated per-request fault plans for every backend operation (k<=budget transient faults are masked with attempts=faults+1 and unchanged results; a permanent error surfaces on attempt 1 as the original exception; beyond the budget the last error is raised; exists never turns an error into False; conditional PUTs are not retried).",
   note="The S3 side is a fake (MD5 ETags, conditional PUT, paginated listings of 2 keys/page). Directory-ness of exists() is outside the contract and not compared. whence is restricted to 0/1/2.",
   technique="property-based differential testing (Hypothesis) of two implementations + fault-plan injection at request granularity", design="3/C20")
CHECKS["C10"] = dict(level="exploration",
   text="Generated histories that interleave commits with failed commits and crash leftovers (both leave uncommitted vN metadata files), then a pointer damage drawn from a byte grammar (17 classes incl. stale and orphan-naming content), then an action (load, create with another schema, append, scan, GC after ageing). The table in effect must have the original uuid/schema and exactly the snapshots and rows of the latest COMMITTED version known to the harness; create must not re-initialise; a follow-up append must preserve all committed rows and build on the latest committed version; GC must not delete its files.",
   note="Three root causes are listed as known findings (pointer naming an existing stale / uncommitted file is trusted; crash orphan surfaces after pointer loss): their cases are counted and reported as KNOWN-FINDING, every other bucket is a VIOLATION. 'Committed' is defined by the pointer history the harness records after successful calls.",
   technique="property-based testing (Hypothesis histories + pointer-byte grammar) against a model of committed versions and an independent reader", design="3/C10")
CHECKS["C04"] = dict(level="fault_enumeration",
   text="For every scenario (3 backends x 5 operations x up to 4 documented call styles) the step sequence of a clean run is recorded (local: every os-level call of the storage, data-file and lock modules plus every storage API call; S3: every request) and one fault is injected at EVERY step: storage error before effect, (S3) error after effect on every PUT/DELETE, KeyboardInterrupt before and after, SystemExit before; plus double faults with a second error 1-8 steps later. After each injection an independent reader classifies the table as pre / post / damaged: success implies post, a non-ambiguous storage error implies pre, an interrupt implies pre or post, AmbiguousCommitError only from an object-store pointer fault and then no file written by the transaction is missing; every retained snapshot must verify; a follow-up append + scan on a fresh handle must work and must not reference any file of the failed transaction. Exhaustive over the step sequence of each scenario, not over scenarios.",
   note="Fault-free step sequences are assumed reproducible between the recording run and the injection run (checked: a fault that is never reached is counted, not judged). Errors on close(2) are raised after its effect (the descriptor is always released). After an interrupt the process is assumed to exit (kernel locks dropped / S3 lease lapsed) before the follow-up.",
   technique="exhaustive single-fault injection over recorded step sequences (plus bounded double faults), oracle = independent reader state classification", design="3/C04")
CHECKS["C03"] = dict(level="fault_enumeration",
   text="Crash-point enumeration: for a prefix history (fixed in the quick tier, Hypothesis-generated in the thorough tier, incl. failed-commit and crash leftovers) and each operation (create_table, append, multi-append, delete_files, expire, delete_snapshot, garbage_collect) the table directory / S3 object map is copied before and after EVERY step of one complete run - each copy is exactly what a process death there leaves - plus torn prefixes of the natively written parquet temp file. Every crash state is reopened and must equal the pre- or post-state (independent reader), scan identically through the library, accept an append, and after ageing past grace and the 24 h marker window GC must delete nothing reachable, leave the content unchanged and remove the leftovers.",
   note="Exhaustive over the step sequence of each (prefix, operation), not over prefixes. Process death with a surviving OS; kernel flocks die with the process, S3 lock objects are aged past the lease. Power loss is C16.",
   technique="exhaustive crash-state enumeration over recorded step sequences (directory copies), oracle = independent reader + library reopen + follow-up append + GC", design="3/C03")
CHECKS["C14"] = dict(level="fault_enumeration",
   text="For Hypothesis-generated tables (local and fake S3) every file reachable from the current snapshot is damaged in every way of a damage grammar (delete, truncations at structural and generated offsets, random bytes, sibling's bytes, one flipped byte per parquet region, persistent read error) and every read API x verify on/off x filter (none / pruning / non-pruning) is run: if the damaged file is needed by the read and the damage makes it missing/unparseable (judged by an independent parser) or (data files, verification on) changes any byte, the API must raise; otherwise a returned answer must equal the undamaged answer. Exhaustive over files x damages x APIs per generated table.",
   note="Metadata-plane damages that an independent parser still accepts are excluded (the statement does not cover parseable files). One known finding: deleting the metadata file the pointer names makes reads fall back to an older version (recovery-by-scan by design; conflicts with C10).",
   technique="exhaustive damage enumeration over generated tables (fault injection on files and on read calls), oracle = undamaged answer + independent parser", design="3/C14")
CHECKS["C07"] = dict(level="fault_enumeration",
   text="On tables built so that any wrong decision deletes something (rewritten manifest, live transaction with aged file, in-flight manifest with payload marker, legacy empty-payload marker, abandoned marker, aged orphans; 6 variants x local / fake S3): (a) a fault at EVERY step of a clean collection run (storage API and os-level calls; S3 requests failing persistently through the retry budget), (b) each listing returning an escaping path, (c) every reachable metadata-plane file corrupted in every way an independent parser rejects. After each run, raised or not, no file reachable in the undamaged table and no file protected by a live marker may be missing.",
   note="True reachability/protection come from the independent reader on the undamaged table and from the harness's knowledge of the markers it planted. A run that raises after deleting only true orphans is allowed by the statement (protection stayed in force) and is counted, not flagged.",
   technique="exhaustive fault injection over the recorded step sequence of GC + corruption enumeration, oracle = independent reachability", design="3/C07")
CHECKS["C16"] = dict(level="fault_enumeration",
   text="The os-level trace (mkstemp, NamedTemporaryFile, native parquet write, write, fsync, close, replace, remove, open, makedirs) of whole Hypothesis-generated histories, from table creation on, is replayed on a model file system with volatile/durable content per inode and volatile/durable entries per directory; at every prefix, and in particular at every pointer rename, every file reachable from the version the pointer names (independent reader) must have durable content and a durable directory entry, and the pointer's own content must be flushed before its rename. Exhaustive over the prefixes of each generated trace.",
   note="A model of POSIX power-loss semantics, not a power cycle. fsync via a fresh read-only descriptor of the same inode counts (Linux). Durability of newly created directories' own entries is a diagnostic only.",
   technique="trace-prefix enumeration over Hypothesis-generated histories against a power-loss model file system", design="3/C16")
CHECKS["C17"] = dict(level="exploration",
   text="Path strings from a grammar (exhaustive to depth 3 over 9-15 components x 2 prefixes plus absolute sentinel paths; Hypothesis-sampled at depth 4-5 with doubled slashes) are pushed through 20 entry points (all public LocalStorageBackend methods, lock creation, DataFileManager read/open/write, append_files/delete_files), and tampered manifest entries / manifest references / manifest-list references / marker payloads (10 escaping spellings) are followed by 9 actions (scans, row_count, GC, verify_integrity, append, delete). The table root is reached directly and through a symlink and contains symlinks to the outside. A process-wide audit hook flags any open/list/remove/rename/mkdir/utime/truncate/link on a path outside the canonical root (and paths handed to the native parquet reader/writer); the sentinel tree's fingerprint must not change; an escaping path must raise; no read may return the sentinel's rows.",
   note="stat-like probes are not flagged. Native pyarrow opens are observed through the arguments the library passes to pyarrow.parquet (no ptrace/strace in the registered commands).",
   technique="exhaustive small-depth path-grammar enumeration + Hypothesis sampling at larger depth, oracle = audit-hook access monitor + sentinel fingerprint", design="3/C17")
CHECKS["C01"] = dict(level="exploration",
   text="Schedule search with a deterministic cooperative scheduler that owns the interleaving at every storage-API call, lock syscall, atomic publish and S3 request: exhaustive single-preemption enumeration (every decision index x every actor x both priority orders) for fixed 2-committer scenarios, plus Hypothesis PCT-style schedules (priority order + <=3 change points) over generated scenarios (local flock / conditional-write S3, shared or separate handles, real-like or coarse clock, 2-4 committers over 6 operation kinds). Refinement oracle: every version the pointer ever named is parsed by the independent reader in flip order and must equal the previous version with exactly the flipping actor's operation applied; acknowledged <=> flipped exactly once; final table = last flipped version; sequence numbers unique and +1 per snapshot commit.",
   note="A bounded search: preemption depth 1 exhaustively for the fixed scenarios, depth <=3 sampled elsewhere; interleavings inside one storage call / inside pyarrow and true multi-process memory effects are out of reach. Separate handles in one process stand in for separate processes (kernel flock and the object store are the only shared state).",
   technique="deterministic-scheduler schedule enumeration + Hypothesis PCT schedule generation, refinement oracle against a sequential model over the pointer-flip history", design="3/C01")
CHECKS["C02"] = dict(level="exploration",
   text="Schedule search with the deterministic scheduler: exhaustive single-preemption enumeration for fixed reader x writer scenarios (incl. the empty table, multi-append transactions, deletes, a rolled-back transaction and a commit failing at the pointer write; local and conditional-write S3; shared and separate handles) plus Hypothesis PCT schedules over generated scenarios with 1-2 readers (1-2 successive reads each, every read API with filter / projection / verification options) and 1-3 writers. From the pointer-flip log the committed current snapshots and the step interval of each are reconstructed by the independent reader; every read must RETURN exactly the (filtered, projected) rows of one snapshot that was current at some instant of the read, and successive reads on one handle must not go backwards.",
   note="Bounded schedule search (depth 1 exhaustive on fixed scenarios, depth <=3 sampled). Thread-pool workers of a parallel scan are not scheduled individually. GC and expiry are not among the writers here.",
   technique="deterministic-scheduler schedule enumeration + Hypothesis PCT schedules, linearizability-style oracle over the pointer-flip history", design="3/C02")
CHECKS["C06"] = dict(level="exploration",
   text="Schedule search with the deterministic scheduler: one collector and 1-2 transactions (append, multi-append, delete_files; committing, retrying, rolling back; optionally with data files written before the run and aged past the grace period = long-running load) on local and conditional-write S3; exhaustive single-preemption enumeration for 5 fixed scenarios plus Hypothesis PCT schedules over generated scenarios. When every actor has finished, every file of every snapshot of the final metadata must exist and verify (independent reader) and the rows of acknowledged transactions must be readable.",
   note="Grace is never 0 and nothing is aged during a run, so 'grace exceeds the duration of the run' holds by construction. Bounded schedule depth (1 exhaustive, <=3 sampled).",
   technique="deterministic-scheduler schedule enumeration + Hypothesis PCT schedules, end-state oracle by independent reader", design="3/C06")
CHECKS["C18"] = dict(level="exploration",
   text="Schedule search with the deterministic scheduler over concurrent create/open/first-append calls: 4 initial states (absent, healthy, pointer lost, creation interrupted) x local / conditional-write S3 x 2-3 actors (create with schema A or B or none, load, create-then-append with or without a schema argument), with the real lock and - for creators on S3 - with a lock that gives no exclusion; exhaustive single-preemption enumeration for 7 fixed scenarios plus Hypothesis PCT schedules over generated ones. At the end every metadata file and every returned handle must carry one uuid, a pre-existing table keeps uuid/schema/rows, the persisted schema is a supplied one, acknowledged appends are readable exactly once, an append with no schema available raised, load_table raised 'no table' or returned that table.",
   note="Bounded schedule depth (1 exhaustive, <=3 sampled). Appends that raise a contention error (timeout / conflict) are simply not acknowledged. Commits racing without lock exclusion are C08's subject and are not generated here.",
   technique="deterministic-scheduler schedule enumeration + Hypothesis PCT schedules, end-state oracle by independent reader and handle inspection", design="3/C18")
CHECKS["C08"] = dict(level="exploration",
   text="Schedule search with the deterministic scheduler at S3-request granularity (a parked actor is a paused committer or a conditional PUT delayed in flight): 2-3 committers with the real S3 lock or with a lock that grants everyone, plus lease-lapse and heartbeat-renewal actors. Exhaustive single-preemption enumeration for 5 fixed scenarios, a structured enumeration of the paused-holder family (A paused at i, lease lapses, B runs until j, A resumes; ~5000 schedules), and Hypothesis PCT schedules (<=4 change points) over generated scenarios. Oracles: refinement of the pointer-flip chain (no acknowledged commit lost or duplicated), a pointer monitor (a landed conditional PUT replaces exactly the pointer content the committer validated against), and fencing (a committer whose lock was already lost when it wrote its metadata file never flips the pointer).",
   note="The S3 store is a strongly consistent fake with MD5 ETags. The inherent window between the fence read and the PUT is not flagged (the CAS is the protection there, covered by the first two oracles). Bounded schedule depth.",
   technique="deterministic-scheduler schedule enumeration + Hypothesis PCT schedules over S3 request interleavings, refinement + request-log monitor oracles", design="3/C08")
CHECKS["C19"] = dict(level="exploration",
   text="Local FileLock: 2-3 contenders under the deterministic scheduler at syscall granularity (open / flock / close / unlink / virtual sleep), incl. a 1000-virtual-second holder forcing timeouts, plus real processes (8 x 60 non-atomic counter increments under the lock; a holder SIGKILLed while holding). S3 conditional-write lock: 2-3 providers with acquire / hold / renew / release, heartbeat-renewal, is_held probes and lease ageing actors scheduled before every request; exhaustive single-preemption enumeration for 7 fixed scenarios, exhaustive enumeration of ALL schedules with <=3 preemptions of a tiny S3 scenario (holder that renews, contender, lease lapse: ~65 000 schedules), Hypothesis PCT schedules elsewhere. Oracles: no overlapping critical sections unless the replaced lock object was older than the lease; is_held true inside / false after release; from the request log an owner-changing PUT lands only on an object older than the lease and is never unconditional; a superseded holder reports not-held; TimeoutError within [timeout, timeout + one poll/jitter + step costs] of virtual time.",
   note="Virtual time (0.01 s per executed step) drives timeouts and polling; the lease age uses the fake store's LastModified minus explicit ageing. The process stress has no schedule control: only a real lost increment / a dead holder keeping the lock can fail it. Liveness beyond the bounded-timeout check is not decided.",
   technique="deterministic-scheduler schedule enumeration (depth 1 and exhaustive depth 3) + Hypothesis PCT schedules + multi-process stress, request-log and critical-section oracles", design="3/C19")
NOT_YET = {}

EXTRA = {
 "C01": "Every ORDERED pair of operation kinds additionally gets an exhaustive single-preemption enumeration; two operations per actor through one handle; a multi-process stress with an end-state oracle.",
 "C02": "Writers also include an append with one I/O error injected at the j-th low-level step after the pointer rename, and 'replace a file + expire everything older + garbage_collect(grace 0)' (a read of a collected snapshot may raise, a returned one must be whole); readers may get one transient error on their k-th pointer access; two readers on one shared handle.",
 "C03": "A fault-free operation that raises on a table whose history holds crash leftovers is reported as well.",
 "C04": "Also: retryable connection errors after the effect of every S3 PUT/DELETE; once the pointer has named the new version it must not be taken away again; the failed attempt's handle and its Transaction OBJECT are reused afterwards (begin/append_data/rollback must not touch committed files).",
 "C06": "Slow committers (every file completed before the collector starts is already older than the grace period) and manifest-rewriting partial deletes are part of the scenarios.",
 "C07": "Local faults are injected once and persistently (same call on the same file); S3 faults once (absorbed by the retry layer) and persistently, with 2 keys per listing page.",
 "C09": "The history engine can force a lost commit race (racing_append: a second handle commits inside the first handle's commit call, clock advancing in between) and re-append an already listed data file.",
 "C10": "A third of the cases perform the open / append once under a storage READ error (one-shot or persistent: refusing is allowed, re-initialising or losing data is not); the action 'open while another handle's commit lands right after the opener's first metadata listing'; 'append, lose the pointer again, reopen'.",
 "C11": "Value classes include integer epoch values for temporal columns (first values python cannot express), long strings sharing a 64+ character prefix, batches beyond the writer's internal batch size.",
 "C12": "Two lazy scans with different filters consumed alternately on ONE handle must each return what they return alone; union/intersection set laws for in/not_in.",
 "C13": "Cross-type literal sub-domains are enumerated exhaustively as well (Decimal / double spelling of float32 values / ints and floats around 2^53 and 2^24 / datetime on date, date on timestamp / bytes on string).",
 "C14": "Also: the data file changes WHILE a verified read is in progress (after each traced storage call that touches it, or while a lazy read is suspended after its first item): the read must raise or return exactly the table; and another handle commits after the k-th traced call of a read of a damaged table (every k): the read must still raise. A long-lived handle that read successfully before the damage is used next to fresh ones.",
 "C15": "Histories include forced lost commit races (racing_append) and a data file appended twice before being deleted.",
 "C16": "Also: two or three committers sharing ONE Table object under the deterministic scheduler (decision at every traced call; exhaustive single preemption for append x append), same trace model; and every fsync of every operation type failing once (a failed fsync makes nothing durable in the model).",
 "C17": "Object-storage part: the same path grammar to depth 3 (thorough 4) x 17 entry points against a table at key prefix 'warehouse/t1/' next to sibling keys - every request the fake S3 receives must carry a key that literally starts with the table's prefix. Late symlinks: a table directory replaced by a symlink to an outside twin between two uses of the same path.",
 "C18": "Actors include creators whose own pointer write fails cleanly.",
 "C19": "Local: an old lock file (mtime is no liveness signal), fork()ed children inheriting a used handle. S3: a holder that was taken over stays superseded until it goes through acquire() again (writing the lock object back from a renewal = never observed the loss); exhaustive depth-3 schedules for a tiny scenario.",
 "C20": "Faults at any page of a listing and while a response body is streamed; the retry budget is checked exactly.",
}
EXTRA2 = {
 "C01": "Pair enumeration also on a base whose single manifest holds three files (partial deletes of one manifest).",
 "C03": "Expiry removes every snapshot older than the current one (several at once, one commit point).",
 "C07": "After every aborted collection the SAME handle collects a second time (fault gone / damage still there); existence probes that wrongly answer False; tables carry uncommitted metadata files of the current and of the next version number; 2 keys per S3 listing page.",
 "C08": "A 'frozen committer' family: one committer is STOPPED at decision i (it does not run while the others sleep) until the other has finished; the pointer object may be missing at the start.",
 "C09": "A third of the histories let the clock step back; committed transactions may leave their markers behind (aged past 24 h later); pre-built files with one base name in two directories.",
 "C10": "An object-storage part: 1-12 commits on the fake S3 with conditional writes, the pointer OBJECT damaged, then load_table / create_table / one or two appends (same table, all rows, writable again). Pointer grammar includes digits int() refuses.",
 "C13": "Random tables may write all their files in ONE transaction; binary columns (a type without bounds).",
 "C14": "Tables may start with a pre-built file registered WITHOUT a checksum (unverifiable itself; the files after it still must be verified).",
 "C15": "An object-storage part: commits on the fake S3 with the pointer object replaced by a legacy number / missing name / garbage in between; well-formedness clauses that need no model are evaluated by the independent reader.",
 "C16": "A failed fsync LOSES that content version in the model (a later successful fsync does not bring it back); os calls are traced in every datashard module.",
 "C18": "Lock timeouts of 0.03-0.2 virtual seconds with a STOPPED creator.",
 "C19": "S3: a release whose DELETE fails + a second round; acquire() returning True must be backed by a landed write of that contender during the call; a second exhaustive depth-3 scenario with two tenures of one provider.",
 "C20": "Listings of 999-2500 keys with 1000 and 100 keys per page; botocore transport errors (ConnectionClosed, ReadTimeout, ResponseStreaming, IncompleteRead, HTTPClientError) among the transient fault kinds; the fake paginator honours PaginationConfig.",
}
EXTRA3 = {
 "C02": "Writers as separate OS PROCESSES forked from a parent that already imported the library (2-3 writers x 1-3 appends per transaction x 0-2 prior snapshots): every acknowledged commit is visible through every read API of a long-lived and of a fresh handle, snapshot ids are distinct.",
 "C06": "The collector may run twice in a row while a long-open transaction's markers are as old as its files (older than the grace period, younger than 24 h).",
 "C07": "Manifest lists / manifests re-encoded as valid Avro with one entry carrying an unknown code (content, file format, status).",
 "C09": "Under a backwards clock: retention trimming followed by deletion of the current snapshot (macro).",
 "C10": "The length of an all-digit version field is generated (2-4400; boundaries at 19/20, 255, 4096, 4300 digits) for bare numbers, vN-hex names and legacy names.",
 "C12": "Integral float literals also written as ints; files holding ONE number plus NaN / NULL rows, filtered by that number.",
 "C13": "Tables are read (and may get their last file) through the creating handle, a load_table handle, or a create_table handle whose schema numbers the same fields differently.",
 "C16": "Which pointer RENAME is durable is tracked: nothing an older, possibly surviving pointer names may have been removed (histories include collections with grace 0).",
 "C17": "The object-storage enumeration rebuilds its bucket every 300 paths.",
 "C18": "Exhaustive depth-2 enumeration (first creator parked at i, second runs k <= 40 decisions, first finishes, second finishes) for create x create+append.",
 "C19": "S3: one transient error on the read-back inside release(); no DELETE may remove a lock object that carries another contender's id and is younger than the lease.",
}
EXTRA4 = {
 "C02": "On object storage the late fault is a transport error after the pointer PUT landed.",
 "C04": "Two scenarios start from a base whose first manifest lists two files (partial deletes: the manifest is rewritten).",
 "C05": "Unreferenced ALIASES (relative symlinks) of live data files / manifests are planted as orphans: the alias may go, its target must stay.",
 "C06": "Exhaustive depth-2 enumeration for a slow committer (transaction parked at i <= 70, collector runs k <= 80 decisions, transaction commits, collector finishes).",
 "C10": "Action second_loss_same_handle: a long-lived handle recovers, another handle commits, the pointer is lost again, the long-lived handle reads and appends.",
 "C11": "Pre-built files declare an exact / 0 / 1 / 10^6 record count (never checked by the library): scans return the file's rows regardless.",
 "C12": "The container type of in / not_in value sets is generated (list, tuple, set, generator, map, iter, dict keys, deque, range).",
 "C13": "Every non-empty in / not_in filter of the exhaustive sub-domains also runs with a generator (scan) and an iterator (streaming API); random tables draw the container.",
 "C14": "Read errors that are over after the first / first two attempts of an API call: raising or the complete answer are the only allowed outcomes.",
 "C16": "After a failed fsync, fault-free commits through the same and a fresh handle are traced too and a non-durable later commit is reported apart from the known swallowed-directory-fsync finding.",
 "C18": "Every case ends with a commit through a fresh handle once all actors returned (a lock nobody should hold any more must not block it).",
 "C19": "S3: the process time zone is part of the scenario (EET-2 / PST8 / IST-5:30 / NZST-12); all actor orders for holder / lapse / takeover + release / is_held() probe.",
}
EXTRA5 = {
 "C03": "Operations include 'replace' (delete_files + append_data in ONE transaction: one commit point).",
 "C04": "Operations include 'replace'; ParquetWriter.write is an injectable step (errors / interrupts while rows stream into the data file).",
 "C07": "Escaping listings also in the mixed form: first entry right, the others spelled '../<table dir>/...' (resolving to live files).",
 "C09": "A failing commit may hand in a DataFile the table already lists (the file is the table's, not the transaction's).",
 "C11": "Record appends may run with the k-th write of rows into the parquet file failing once.",
 "C14": "Combined damage: data file replaced by another valid file AND its first read attempt failing.",
 "C15": "Histories include transactions that stay open across other commits.",
 "C17": "A third root spelling: '<base>/hop/../root' with hop a symlink to a sibling directory (create-or-open must create nothing anywhere).",
}
EXTRA5["C10"] = "A crash leftover with the SAME number as the latest committed version and older than it is judged on its own (the scan's tie-break), not under the recorded known finding."
EXTRA5["C12"] = "Read APIs include a caller that collects all batches of scan_batches first and reads them afterwards."
EXTRA5["C13"] = "One-transaction tables may lose one file to delete_files (manifest rewritten, statistics carried over) before the filtered read."
for _k, _v in EXTRA5.items():
    EXTRA4[_k] = (EXTRA4.get(_k, "") + " " + _v).strip()
for _k, _v in EXTRA2.items():
    EXTRA[_k] = (EXTRA.get(_k, "") + " " + _v).strip()
for _k, _v in EXTRA4.items():
    EXTRA3[_k] = (EXTRA3.get(_k, "") + " " + _v).strip()
for _k, _v in EXTRA3.items():
    EXTRA[_k] = (EXTRA.get(_k, "") + " " + _v).strip()
for _k, _v in EXTRA.items():
    CHECKS[_k]["text"] = CHECKS[_k]["text"].rstrip() + " " + _v


def main():
    props = [json.loads(l)["id"] for l in open(os.path.join(HERE, "properties.jsonl"))]
    checks = []
    for pid in props:
        if pid not in CHECKS:
            continue
        c = CHECKS[pid]
        checks.append({
            "property_id": pid,
            "quick_cmd": f"./check {pid} --tier quick",
            "thorough_cmd": f"./check {pid} --tier thorough",
            "evidence_file": f"evidence/{pid}.json",
            "replay_cmd_template": f"./check {pid} --replay {{path}}",
            "engine": "vf",
            "level_claimed": {"category": c["level"], "text": c["text"], "design_ref": c["design"]},
            "level_note": c["note"],
            "technique": c["technique"],
        })
    na = [{"property_id": p, "reason": NOT_YET.get(p, "check not built yet in this session; see DESIGN.md section 3 for the planned generated check")} for p in props if p not in CHECKS]
    m = {
        "version": 1,
        "setup_cmd": "./setup.sh",
        "hooks": {"guard": "DATASHARD_VERIF", "enable": "none needed: all instrumentation is applied from the harness by substituting module attributes (storage backends, boto3 client, os/time/uuid); the guard name is reserved and unused", "baseline_off_cmd": "cd /repo && /venv/bin/python -m pytest -ra -q -p no:cacheprovider --timeout=900 --continue-on-collection-errors", "source_commits": [], "add_only": True},
        "engines": [{"name": "vf", "path": "vf/", "serves_properties": [c["property_id"] for c in checks], "kind_free_text": "Python package: Hypothesis campaigns (collect-then-shrink), exhaustive enumerators, independent table reader, fake S3, deterministic scheduler, fault/crash injectors; entry point ./check"}],
        "checks": checks,
        "not_applicable": na,
        "notes": "All checks run under /venv/bin/python against /repo/src (current working tree). Known genuine defects that were repaired are listed as 'fixed' in known_findings.json; unrepaired ones as 'findings'.",
    }
    json.dump(m, open(os.path.join(HERE, "MANIFEST.json"), "w"), indent=1)
    try:
        import jsonschema
        jsonschema.validate(m, json.load(open("/root/.vp/MANIFEST.schema.json")))
        print("MANIFEST valid;", len(checks), "checks,", len(na), "not_applicable")
    except ImportError:
        print("written (jsonschema not available to validate)")

if __name__ == "__main__":
    main()
