#!/usr/bin/env python3
"""Print the prompt for a mutation sub-agent: only the property text and its own worktree (nothing from /verif)."""
import json, sys
pid = sys.argv[1]
variant = sys.argv[2] if len(sys.argv) > 2 else ""
wt = f"/tmp/wt/{pid}{variant}"
p = next(json.loads(l) for l in open("/verif/properties.jsonl") if json.loads(l)["id"] == pid)
avoid = ""
try:
    import glob
    prev = [json.load(open(f)).get("summary", "") for f in sorted(glob.glob(f"/verif/seeded/{pid}*/meta.json"))]
    if prev:
        avoid = "\nEarlier attempts (do something DIFFERENT - another code site, another mechanism, another way to manifest):\n" + "\n".join(f"  - {x[:400]}" for x in prev) + "\n"
except Exception:
    pass
print(f"""You are helping to evaluate a verification harness by seeding ONE realistic defect into a library.

Work ONLY inside the git worktree {wt} (a checkout of the DataShard repository: a pure-Python, Iceberg-inspired table format with OCC snapshot commits over local/S3 storage, a version-hint commit pointer, Avro manifests, distributed locks and a fail-closed garbage collector; sources in {wt}/src/datashard). Do NOT read or modify anything under /repo or /verif, and do not look for other people's tests of this property outside the worktree.

The property the library is supposed to satisfy:

  {p['id']} - {p['title']}
  {p['statement']}

{avoid}
Your task: make ONE small change to the library source under {wt}/src/datashard that BREAKS this property, such that
 (a) the package still imports and the existing test-suite still passes exactly as before. Run it with
       cd {wt} && PYTHONPATH={wt}/src /venv/bin/python -m pytest -q -p no:cacheprovider --timeout=900 tests
     Baseline on the unchanged tree: 143 passed, 7 failed, 5 skipped (the 7 failures are pandas-related tests in tests/test_scan_features.py; pandas is not installed). After your change the same 143 must still pass.
 (b) the breakage needs something SPECIFIC to manifest - a particular interleaving of threads/processes, a crash or storage fault at a particular point, a multi-step sequence of operations, an unusual input, or two cooperating code sites that each look fine alone - NOT something that ordinary single-threaded happy-path use would expose at once.
 (c) it looks like a mistake a maintainer could plausibly make in a refactor, a clean-up or an 'optimisation' (do not add obviously malicious code, comments announcing the bug, or special-casing of magic values).

Environment: /venv/bin/python (3.12) has pyarrow, fastavro, boto3/botocore, hypothesis, pytest; there is no network and no real S3 (if you need S3 behaviour, write a small in-memory fake boto3 client in your demo and monkeypatch datashard.storage_backend.boto3 / pyarrow.fs.S3FileSystem, or stay on the local backend). Always set PYTHONPATH={wt}/src so that `import datashard` resolves to YOUR worktree (check datashard.__file__).

Deliverables, all inside {wt}/seeded/ :
  - patch.diff : `git -C {wt} diff HEAD -- src` of your change (must apply with `git apply` on a clean checkout);
  - demo.py    : a standalone program, run as `PYTHONPATH={wt}/src /venv/bin/python {wt}/seeded/demo.py`, that exits with code 1 and prints what went wrong when the property is violated and exits 0 when it holds. It MUST exit 1 with your change applied and 0 on the unchanged tree (verify both with `git apply -R seeded/patch.diff` / `git apply seeded/patch.diff`; do NOT use `git stash`, the stash is shared with other worktrees). Deterministic if at all possible (force the interleaving / fault by monkeypatching a storage call, a barrier, or an injected exception rather than relying on timing);
  - meta.json  : {{"property": "{p['id']}", "summary": "...", "needs": "what is needed for the bug to manifest", "files_changed": [...], "ran": ["commands you ran and their results"]}}.
Leave the worktree with your change applied (uncommitted). Finish with a short report: what you changed, why the tests do not notice, what the demo does, and the demo's exit codes with and without the change.""")
