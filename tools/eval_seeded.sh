#!/bin/bash
# usage: tools/eval_seeded.sh <patch.diff> CHECK [CHECK...]   - apply a seeded change to /repo, run baseline + checks (quick), undo.
patch=$1; shift
cd /repo || exit 2
if [ -n "$(git status --porcelain)" ]; then echo "repo not clean"; exit 2; fi
git apply "$patch" || { echo "patch does not apply"; exit 2; }
/verif/tools/baseline.sh
for c in "$@"; do
  out=$(/verif/check $c --tier ${TIER:-quick} 2>&1); rc=$?
  echo "== $c rc=$rc  $(echo "$out" | grep -E "^$c tier" | cut -c1-120)"
  echo "$out" | grep -E "VIOLATION-DETAIL|HARNESS" | head -${NLINES:-3} | cut -c1-330
done
git -C /repo checkout -- . ; git -C /repo status --porcelain | head -3
rm -rf /verif/replays
