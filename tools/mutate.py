#!/venv/bin/python
"""Apply an in-place text mutation to a /repo file, run checks, revert.  usage: mutate.py FILE 'OLD' 'NEW' CHECK [CHECK...]"""
import subprocess, sys
f, old, new, checks = sys.argv[1], sys.argv[2], sys.argv[3], sys.argv[4:]
p = "/repo/" + f
s = open(p).read()
assert s.count(old) >= 1, "pattern not found"
open(p, "w").write(s.replace(old, new, 1))
try:
    for c in checks:
        r = subprocess.run(["/verif/check", c, "--tier", "quick"], capture_output=True, text=True)
        lines = [l for l in r.stdout.splitlines() if l.startswith(("VIOLATION-DETAIL", "HARNESS", c))]
        print(f"== {c} rc={r.returncode}")
        for l in lines[:4]:
            print("   ", l[:300])
finally:
    subprocess.run(["git", "-C", "/repo", "checkout", "--", f])
    subprocess.run(["rm", "-rf", "/verif/replays"])
