#!/bin/bash
# For every seeded change: apply it in its scratch worktree, run the detecting check, keep the smallest replay as a corpus regression case.
cd /verif
for sid in $(ls seeded | grep '^C'); do
  pid=${sid:0:3}
  chk=$(python3 -c "import json; print(json.load(open('seeded/$sid/meta.json'))['evaluation']['detected_by'])")
  wt=/tmp/wt/$pid
  (cd $wt && git checkout -q -- src && git apply /verif/seeded/$sid/patch.diff) || { echo "$sid: patch failed"; continue; }
  export VF_REPO=$wt VF_EVIDENCE_DIR=/dev/shm/ev_mut VF_REPLAY_DIR=/dev/shm/replays_harvest/$sid
  rm -rf $VF_REPLAY_DIR
  ./check $chk --tier quick >/dev/shm/harvest_$sid.log 2>&1
  f=$(ls -S $VF_REPLAY_DIR/$chk/*.json 2>/dev/null | tail -1)
  if [ -n "$f" ]; then
    mkdir -p corpus/$chk; cp "$f" corpus/$chk/seeded-$sid.json; echo "$sid -> corpus/$chk/seeded-$sid.json ($(stat -c %s "$f") bytes)"
  else echo "$sid: no replay produced by $chk (violation came from the corpus tier?)"; grep -m2 VIOLATION-DETAIL /dev/shm/harvest_$sid.log | cut -c1-160; fi
  (cd $wt && git checkout -q -- src)
  unset VF_REPO VF_EVIDENCE_DIR VF_REPLAY_DIR
done
