#!/bin/bash
# usage: tools/confirm_seeded.sh <worktree>   - confirm a sub-agent's deliverable in its own worktree:
#   demo exits 1 with the change, 0 without; the 143 baseline tests pass with the change.
wt=$1
cd $wt || exit 2
test -f seeded/patch.diff -a -f seeded/demo.py || { echo "missing deliverables"; ls seeded; exit 2; }
git stash -q -- src 2>/dev/null
PYTHONPATH=$wt/src timeout 600 /venv/bin/python seeded/demo.py >/dev/shm/demo_clean.out 2>&1; rc_clean=$?
git stash pop -q 2>/dev/null
PYTHONPATH=$wt/src timeout 600 /venv/bin/python seeded/demo.py >/dev/shm/demo_mut.out 2>&1; rc_mut=$?
passed=$(PYTHONPATH=$wt/src timeout 900 /venv/bin/python -m pytest -q -p no:cacheprovider --timeout=900 tests 2>&1 | tail -1)
echo "demo: clean rc=$rc_clean mutated rc=$rc_mut ; tests with change: $passed"
tail -2 /dev/shm/demo_mut.out | cut -c1-300
git diff --stat HEAD -- src | tail -3
