#!/bin/bash
# usage: tools/confirm_seeded.sh <worktree>  - confirm a sub-agent's deliverable from its patch.diff alone (no git stash: the stash is shared
# between worktrees): clean src -> demo must exit 0 ; apply patch -> demo must exit 1 and the 143 baseline tests must still pass.
wt=$1
cd $wt || exit 2
test -f seeded/patch.diff -a -f seeded/demo.py || { echo "missing deliverables"; ls seeded; exit 2; }
git checkout -q -- src
PYTHONPATH=$wt/src timeout 900 /venv/bin/python seeded/demo.py >/dev/shm/demo_clean.out 2>&1; rc_clean=$?
git apply seeded/patch.diff || { echo "patch.diff does not apply"; exit 2; }
PYTHONPATH=$wt/src timeout 900 /venv/bin/python seeded/demo.py >/dev/shm/demo_mut.out 2>&1; rc_mut=$?
passed=$(PYTHONPATH=$wt/src timeout 900 /venv/bin/python -m pytest -q -p no:cacheprovider --timeout=900 tests 2>&1 | tail -1)
echo "$(basename $wt): demo clean rc=$rc_clean mutated rc=$rc_mut ; tests with change: $passed ; files: $(git diff --stat HEAD -- src | tail -1)"
