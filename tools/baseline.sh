#!/bin/bash
# Run the repo's pinned baseline (guard off) and compare with /root/.vp/BASELINE.json stable_pass.
set -u
OUT=$(mktemp /dev/shm/junit.XXXXXX.xml)
cd /repo && env -u DATASHARD_VERIF /venv/bin/python -m pytest -ra -q -p no:cacheprovider --timeout=900 --continue-on-collection-errors --junitxml=$OUT >/dev/null 2>&1
/venv/bin/python - "$OUT" <<'PY'
import json,sys,xml.etree.ElementTree as ET
want=set(json.load(open('/root/.vp/BASELINE.json'))['stable_pass'])
got=set()
for tc in ET.parse(sys.argv[1]).getroot().iter('testcase'):
    ok=not any(c.tag in('failure','error','skipped') for c in tc)
    if ok: got.add(f"{tc.get('classname')}::{tc.get('name')}")
# stable names may omit the class part
def norm(n):
    mod,name=n.split('::',1); parts=mod.split('.'); 
    return n
missing=[w for w in want if w not in got]
if missing:
    # try loose match: module prefix + test name
    loose={ (g.split('::')[0].rsplit('.',1)[0] if g.split('::')[0].count('.')>1 else g.split('::')[0])+'::'+g.split('::')[1] for g in got}|got
    missing=[w for w in want if w not in loose]
print(f"baseline: want={len(want)} passed_now={len(got)} missing={len(missing)}")
for m in missing[:20]: print("  MISSING", m)
sys.exit(1 if missing else 0)
PY
rc=$?; rm -f $OUT; exit $rc
