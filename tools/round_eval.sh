#!/bin/bash
# usage: tools/round_eval.sh <suffix> [ids...]  - confirm + evaluate the seeded change in every /tmp/wt/CXX worktree (target check first,
# neighbouring checks only if the target check stays green); copies deliverables to seeded/CXX<suffix>/ and appends lines to /dev/shm/round_<suffix>.txt
suffix=$1; shift
ids=${@:-01 02 03 04 05 06 07 08 09 10 11 12 13 14 15 16 17 18 19 20}
declare -A NB=( [C01]="C08 C19 C02" [C02]="C01 C10 C14" [C03]="C16 C04 C10" [C04]="C03 C01" [C05]="C06 C07 C09" [C06]="C05 C07" [C07]="C05 C06" [C08]="C01 C19"
 [C09]="C05 C15" [C10]="C14 C03 C02" [C11]="C13 C12" [C12]="C13 C11" [C13]="C12 C11" [C14]="C12 C10" [C15]="C09 C01" [C16]="C03" [C17]="C14" [C18]="C03 C01 C10" [C19]="C08 C01" [C20]="C05 C14" )
out=/dev/shm/round_$suffix.txt
for i in $ids; do
  p=C$i; wt=/tmp/wt/$p${WTSUF:-}
  [ -f $wt/seeded/patch.diff ] || { echo "$p: no deliverable" | tee -a $out; continue; }
  conf=$(/verif/tools/confirm_seeded.sh $wt 2>&1 | tail -1)
  echo "$conf" | cut -c1-140 | tee -a $out
  mkdir -p /verif/seeded/$p$suffix; cp $wt/seeded/patch.diff $wt/seeded/demo.py $wt/seeded/meta.json /verif/seeded/$p$suffix/ 2>/dev/null
  caught=""
  for c in $p ${NB[$p]}; do
    r=$(/verif/tools/eval_wt.sh $wt $c 2>&1)
    rc=$(echo "$r" | head -1 | sed -n 's/.*rc=\([0-9]*\).*/\1/p')
    if [ "$rc" = "1" ]; then caught=$c; echo "  CAUGHT by $c: $(echo "$r" | grep VIOLATION-DETAIL | head -1 | cut -c1-220)" | tee -a $out; 
       f=$(ls -S /dev/shm/replays_mut/$(basename $wt)/$c/*.json 2>/dev/null | tail -1); [ -n "$f" ] && mkdir -p /verif/corpus/$c && cp "$f" /verif/corpus/$c/seeded-$p$suffix.json
       break
    elif [ "$rc" = "2" ]; then echo "  HARNESS-ERROR in $c: $(echo "$r" | grep -E 'HARNESS|Error' | head -2 | cut -c1-200)" | tee -a $out
    else echo "  missed by $c" | tee -a $out; fi
  done
  [ -z "$caught" ] && echo "  >>> $p$suffix NOT DETECTED by [$p ${NB[$p]}]" | tee -a $out
  (cd $wt && git checkout -q -- src)
done
