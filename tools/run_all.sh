#!/bin/bash
# usage: [IDS="C17 C18 ..."] tools/run_all.sh [tier] [seed...]   - runs every registered check (or those in IDS, in that order), one line per check
cd "$(dirname "$0")/.."
tier=${1:-quick}; shift
seeds=${@:-1}
for sd in $seeds; do
  for c in ${IDS:-$(python3 -c "import json; print(' '.join(c['property_id'] for c in json.load(open('MANIFEST.json'))['checks']))")}; do
    out=$(VERIF_SEED=$sd ./check $c --tier $tier 2>&1); rc=$?
    echo "seed=$sd rc=$rc $(echo "$out" | grep -E "^$c tier" | tail -1) $(echo "$out" | grep -cE '^KNOWN-FINDING') known-lines"
    if [ $rc -ne 0 ]; then echo "$out" | grep -E "VIOLATION|HARNESS|Error" | head -5 | cut -c1-300; fi
  done
done
