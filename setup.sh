#!/bin/bash
# Offline setup: verify (or install from the local wheelhouse) what the checks import.
set -e
cd "$(dirname "$0")"
export PIP_NO_INDEX=1
if ! /venv/bin/python -c "import hypothesis" 2>/dev/null; then
  /venv/bin/pip install --no-index --find-links /opt/veriftools/wheels hypothesis
fi
PYTHONPATH="$PWD" /venv/bin/python - <<'PY'
import sys
sys.path.insert(0, "/repo/src")
import hypothesis, pyarrow, fastavro, boto3, botocore
import datashard, os
assert os.path.realpath(datashard.__file__).startswith("/repo/src/"), datashard.__file__
import vf.common, vf.reader
print("setup ok: hypothesis", hypothesis.__version__, "pyarrow", pyarrow.__version__, "datashard from", datashard.__file__)
PY
