"""Sequential history engine: runs generated operation histories against the real library while
maintaining a reference model, and checks the invariants of C05 (GC safety/effectiveness),
C09 (snapshot immutability / time travel) and C15 (metadata well-formedness) after every step.

Violations are returned as (property, bucket, what)."""
from __future__ import annotations

import collections
import copy
import hashlib
import json
import os
import time

from hypothesis import strategies as st

from . import clock as vclock
from .reader import DirFS, HINT, ReadError, norm, read_view, reachable_files, rows_multiset, canon_row

FIELDS = [{"id": 1, "name": "k", "type": "long", "required": False}, {"id": 2, "name": "s", "type": "string", "required": False}]
RETENTION = "datashard.snapshot.retention-count"
PREVMAX = "write.metadata.previous-versions-max"


class Stop(Exception):
    pass


class Engine:
    def __init__(self, root, location=None, clock_mode="real", props=("C05", "C09", "C15")):
        import datashard
        from .tbl import make_schema

        self.root = root  # real absolute directory of the table
        self.location = location or root  # spelling handed to the library
        self.props = set(props)
        self.clock = vclock.VClock(clock_mode)
        self.vios = []
        self.labels = collections.Counter()
        self._cm = vclock.installed(self.clock)
        self._cm.__enter__()
        self.t = datashard.create_table(self.location, make_schema(FIELDS, 1))
        self.fs = DirFS(root)
        # model
        self.snaps = {}  # id -> dict(files, rows, parent_true, ancestors, seq, ts, mlist, idx)
        self.order = []
        self.retained = []
        self.current = None
        self.last_seq = 0
        self.prov = {}  # data path -> (added_snapshot, seq)
        self.file_rows = {}
        self.versions = []  # pointer history
        self.hashes = {}  # immutable file -> sha1
        self.open_txns = []  # dict(tx, files, markers, rows)
        self.nrow = 0
        self.step_no = 0
        self.prev_max = 100
        self._sync(initial=True)

    def close(self):
        for o in self.open_txns:
            try:
                o["tx"].rollback()
            except Exception:
                pass
        self._cm.__exit__(None, None, None)

    # ------------------------------------------------------------------ helpers
    def v(self, prop, bucket, what):
        if prop in self.props or prop == "ENG":
            self.vios.append((prop, bucket, f"step {self.step_no}: {what}"))

    def rows(self, n):
        out = []
        for _ in range(n):
            self.nrow += 1
            out.append({"k": self.nrow, "s": f"r{self.nrow}"})
        return out

    def _view(self):
        return read_view(self.fs, rows=True, verify=True)

    def _pointer(self):
        try:
            return self.fs.get(HINT).decode().strip()
        except KeyError:
            return None

    def cur_files(self):
        return set() if self.current is None else set(self.snaps[self.current]["files"])

    def cur_rows(self):
        return collections.Counter() if self.current is None else collections.Counter(self.snaps[self.current]["rows"])

    # ------------------------------------------------------------------ sync + invariants
    def _sync(self, initial=False, expect_new=None, expect_removed=None, op=""):
        """Read the table independently, update the model with what the operation is known to have
        done, and check every invariant.
        expect_new: None (no new snapshot) or dict(files=set or None, rows=Counter, newfile_rows=list|None)
        expect_removed: None = 'whatever the policy says' or an exact set of ids that must be gone."""
        ptr = self._pointer()
        if not self.versions or self.versions[-1] != ptr:
            self.versions.append(ptr)
        try:
            view = self._view()
        except ReadError as e:
            self.v("C15", "unreadable-after-op/" + op, f"independent reader failed: {e}")
            self.v("C09", "unreadable-after-op/" + op, f"independent reader failed: {e}")
            raise Stop()
        md = view["raw"]
        ids = [s["id"] for s in view["snapshots"]]
        new_ids = [i for i in ids if i not in self.snaps]
        before_current = self.current
        # ---- new snapshot
        if expect_new is None:
            if new_ids:
                self.v("C15", "unexpected-snapshot/" + op, f"operation created snapshot(s) {new_ids}")
                raise Stop()
        else:
            if len(new_ids) != 1:
                self.v("C15", "snapshot-count/" + op, f"expected exactly one new snapshot, found {len(new_ids)}")
                raise Stop()
            nid = new_ids[0]
            vs = next(s for s in view["snapshots"] if s["id"] == nid)
            files = set(vs["files"])
            if expect_new.get("files") is not None:
                unknown = files - set(self.file_rows) - set(expect_new["files"])
                want = set(expect_new["files"])
                # newly written files are not known by name in advance: match by count and by content
                newf = files - set(self.file_rows)
                if len(newf) != expect_new.get("n_new", 0) or (files - newf) != want:
                    self.v("C15", "delete-not-exact/" + op if "delete" in op or "txn" in op else "fileset/" + op,
                           f"new snapshot file set wrong: kept {sorted(files - newf)} expected {sorted(want)}; new files {len(newf)} expected {expect_new.get('n_new', 0)}")
                for p in newf:
                    self.file_rows[p] = vs["rows_by_file"][p]
            if vs["rows"] != expect_new["rows"]:
                self.v("C09", "content/" + op, f"new snapshot rows differ from the model: extra {list((vs['rows'] - expect_new['rows']).items())[:2]} missing {list((expect_new['rows'] - vs['rows']).items())[:2]}")
                self.v("C15", "content/" + op, "new snapshot rows differ from the model")
            parent_true = before_current
            anc = set()
            if parent_true is not None:
                anc = {parent_true} | self.snaps[parent_true]["ancestors"]
            self.snaps[nid] = {"files": frozenset(files), "rows": collections.Counter(vs["rows"]), "parent_true": parent_true,
                               "ancestors": anc, "seq": vs["seq"], "ts": vs["ts"], "mlist": vs["manifest_list"], "idx": len(self.order),
                               "manifests": list(vs["manifests"])}
            if not getattr(self, "clock_stepped_back", False) and self.order and vs["ts"] < max(self.snaps[i]["ts"] for i in self.order):
                # the clock never ran backwards, yet a LATER commit carries an EARLIER timestamp: as-of answers for past instants change
                self.v("C09", "timestamp-order/" + op, f"snapshot {nid} committed after {self.order[-1]} carries timestamp {vs['ts']} < {max(self.snaps[i]['ts'] for i in self.order)} although the clock never stepped back")
            self.order.append(nid)
            for e in vs["entries"]:
                p = norm(e["path"])
                if p not in self.prov:
                    self.prov[p] = (nid, vs["seq"])
            if md["current_snapshot_id"] != nid:
                self.v("C15", "current-not-new/" + op, f"current_snapshot_id {md['current_snapshot_id']} is not the snapshot just committed {nid}")
            if vs["seq"] != self.last_seq + 1:
                self.v("C15", "sequence/" + op, f"new snapshot sequence {vs['seq']} != previous last_sequence_number {self.last_seq} + 1")
            if parent_true is not None and parent_true in ids and vs["parent"] != parent_true:
                self.v("C15", "parent/" + op, f"new snapshot parent {vs['parent']} is not the snapshot that was current when it was committed ({parent_true}, still retained)")
            if parent_true is None and vs["parent"] not in (None, -1):
                self.v("C15", "parent/" + op, f"first snapshot has parent {vs['parent']}")
        # ---- removed snapshots
        gone = [i for i in self.retained if i not in ids]
        if expect_removed is not None and set(gone) != set(expect_removed):
            self.v("C15", "removal-not-exact/" + op, f"removed {sorted(gone)} expected {sorted(expect_removed)}")
            self.v("C09", "removal-not-exact/" + op, f"removed {sorted(gone)} expected {sorted(expect_removed)}")
        self.retained = [i for i in self.order if i in ids]
        cur = md["current_snapshot_id"]
        self.current = cur if cur not in (None, -1) else None
        if self.current is not None and self.current not in self.snaps:
            self.v("C15", "current-dangling/" + op, f"current_snapshot_id {cur} names no snapshot")
            raise Stop()
        self._check_c15(view, md, op)
        self._check_c09(view, op)
        if md["last_sequence_number"] < self.last_seq:
            self.v("C15", "last-seq-decreased/" + op, f"last_sequence_number went from {self.last_seq} to {md['last_sequence_number']}")
        self.last_seq = md["last_sequence_number"]
        return view

    def _check_c15(self, view, md, op):
        if "C15" not in self.props:
            return
        ids = [s["id"] for s in view["snapshots"]]
        idset = set(ids)
        cur = md["current_snapshot_id"]
        if ids:
            if cur not in idset:
                self.v("C15", "current-not-retained/" + op, f"current_snapshot_id {cur} not among retained {ids}")
        else:
            if cur not in (None, -1):
                self.v("C15", "current-not-retained/" + op, f"table has no snapshots but current_snapshot_id={cur}")
        if len(idset) != len(ids):
            self.v("C15", "duplicate-snapshot/" + op, f"snapshot ids not unique: {ids}")
        for s in view["snapshots"]:
            p = s["parent"]
            if p in (None, -1):
                continue
            m = self.snaps.get(s["id"])
            if p not in idset:
                self.v("C15", "parent-dangling/" + op, f"snapshot {s['id']} has parent {p} which is not retained")
            elif m is not None and p not in m["ancestors"]:
                self.v("C15", "parent-not-ancestor/" + op, f"snapshot {s['id']} has parent {p} which is not one of its true ancestors")
        # snapshot_log
        log_ids = [e["snapshot_id"] for e in md["snapshot_log"]]
        if any(i not in idset for i in log_ids):
            self.v("C15", "log-unretained/" + op, f"snapshot_log names non-retained snapshot(s) {[i for i in log_ids if i not in idset]}")
        pos = [self.snaps[i]["idx"] for i in log_ids if i in self.snaps]
        if pos != sorted(pos) or len(set(log_ids)) != len(log_ids):
            self.v("C15", "log-order/" + op, f"snapshot_log not in commit order / has duplicates: {log_ids}")
        # sequence numbers strictly increase in commit order, <= last
        byid = {s["id"]: s for s in view["snapshots"]}
        seqs = [byid[i]["seq"] for i in self.order if i in byid]
        if any(a is None for a in seqs) or any(b <= a for a, b in zip(seqs, seqs[1:])):
            self.v("C15", "sequence-order/" + op, f"sequence numbers not strictly increasing in commit order: {seqs}")
        if any(a is not None and a > md["last_sequence_number"] for a in seqs):
            self.v("C15", "sequence-exceeds-last/" + op, f"a snapshot sequence exceeds last_sequence_number {md['last_sequence_number']}: {seqs}")
        # carried entries keep provenance
        for s in view["snapshots"]:
            for e in s["entries"]:
                p = norm(e["path"])
                want = self.prov.get(p)
                if want is not None and (e["added_snapshot"], e["seq"]) != want:
                    self.v("C15", "provenance/" + op, f"entry {p} in snapshot {s['id']} carries (snapshot,seq)={(e['added_snapshot'], e['seq'])}, originally {want}")
        # metadata log
        mlog = md["metadata_log"]
        bound = self.prev_max
        if len(mlog) > bound:
            self.v("C15", "metadata-log-bound/" + op, f"metadata_log has {len(mlog)} entries, bound {bound}")
        names = [e.get("metadata-file", "") for e in mlog]
        hist = ["metadata/" + v for v in self.versions[:-1] if v]
        for n in names:
            if not self.fs.exists(n):
                self.v("C15", "metadata-log-missing/" + op, f"metadata_log names missing file {n}")
            if n not in hist:
                self.v("C15", "metadata-log-not-superseded/" + op, f"metadata_log names {n}, which was never a superseded committed version ({len(hist)} superseded so far)")
        idxs = [hist.index(n) for n in names if n in hist]
        if idxs != sorted(idxs) or len(set(idxs)) != len(idxs):
            self.v("C15", "metadata-log-order/" + op, f"metadata_log not in supersession order: {names}")
        if hist and names and len(self.versions) > 1 and names[-1] != hist[-1]:
            self.v("C15", "metadata-log-stale/" + op, f"metadata_log last entry {names[-1]} is not the version just superseded {hist[-1]}")
        if idxs and idxs != list(range(idxs[0], idxs[0] + len(idxs))):
            self.v("C15", "metadata-log-gap/" + op, f"metadata_log skips superseded versions: positions {idxs}")

    def _check_c09(self, view, op):
        if "C09" not in self.props:
            return
        for s in view["snapshots"]:
            m = self.snaps.get(s["id"])
            if m is None:
                continue
            if frozenset(s["files"]) != m["files"]:
                self.v("C09", "fileset-changed/" + op, f"retained snapshot {s['id']} file set changed: now {sorted(s['files'])}, at commit {sorted(m['files'])}")
            if s["rows"] != m["rows"]:
                self.v("C09", "rows-changed/" + op, f"retained snapshot {s['id']} rows changed")
            if s["ts"] != m["ts"] or s["manifest_list"] != m["mlist"] or s["seq"] != m["seq"]:
                self.v("C09", "snapshot-record-changed/" + op, f"snapshot {s['id']} (ts, manifest_list, seq) changed")
        # bytes of immutable files never change
        for p in self.fs.list("data") + self.fs.list("metadata/manifests"):
            if "/.tmp." in p or os.path.basename(p).startswith("tmp"):
                continue
            try:
                h = hashlib.sha1(self.fs.get(p)).hexdigest()
            except KeyError:
                continue
            if p in self.hashes and self.hashes[p] != h:
                self.v("C09", "bytes-changed/" + op, f"file {p} was rewritten in place")
            self.hashes[p] = h
        # library lookups
        t = self.t
        for sid in self.retained:
            m = self.snaps[sid]
            got = t.snapshot_by_id(sid)
            got2 = t.time_travel(snapshot_id=sid)
            for g in (got, got2):
                if g is None or g.snapshot_id != sid or g.timestamp_ms != m["ts"] or g.manifest_list != m["mlist"]:
                    self.v("C09", "lookup-by-id/" + op, f"lookup of retained snapshot {sid} returned {g}")
        if self.clock_monotone():
            tss = sorted({self.snaps[i]["ts"] for i in self.retained})
            probes = set()
            for x in tss:
                probes.update((x - 1, x, x + 1))
            probes.update((0, 2**62))
            for tq in sorted(probes):
                cands = [i for i in self.retained if self.snaps[i]["ts"] <= tq]
                want = cands[-1] if cands else None  # retained is in commit order
                g = t.time_travel(timestamp=tq)
                gid = g.snapshot_id if g is not None else None
                if gid != want:
                    self.v("C09", "lookup-by-timestamp/" + op, f"time_travel(timestamp={tq}) returned {gid}, expected {want} (ts of retained: {[(i, self.snaps[i]['ts']) for i in self.retained]})")
                    break

    def clock_monotone(self):
        ts = [self.snaps[i]["ts"] for i in self.order]
        return all(a <= b for a, b in zip(ts, ts[1:]))

    # ------------------------------------------------------------------ operations
    def run(self, steps):
        try:
            for i, st_ in enumerate(steps):
                self.step_no = i
                self.apply(st_)
        except Stop:
            pass
        return self.vios

    def apply(self, s):
        op = s["op"]
        self.labels["op:" + op] += 1
        getattr(self, "op_" + op)(s)

    def _guard(self, op, fn):
        try:
            return fn()
        except Exception as e:  # noqa
            self.v("ENG", f"op-raised/{op}/{type(e).__name__}", f"{op} raised {type(e).__name__}: {str(e)[:200]}")
            raise Stop()

    def _retention_removed(self):
        return None  # policy decides; invariants constrain it

    def op_tick(self, s):
        if s["ms"] < 0:
            self.clock_stepped_back = True
        self.clock.tick(s["ms"])

    def op_reopen(self, s):
        """Continue through a FRESH handle (nothing cached on the old one may matter, nothing may be missing on the new one)."""
        import datashard

        if self.open_txns:
            return  # open transactions live on the current handle
        self.t = datashard.load_table(self.location)
        self.labels["reopened"] += 1

    def op_append(self, s):
        rows = self.rows(s["n"])
        self._guard("append", lambda: self.t.append_records(rows))
        self._sync(expect_new={"files": self.cur_files(), "n_new": 1, "rows": self.cur_rows() + rows_multiset(rows)}, op="append")

    def _pick_files(self, picks):
        files = sorted(self.cur_files())
        return sorted({files[i % len(files)] for i in picks}) if files else []

    def op_delete_files(self, s):
        paths = self._pick_files(s["pick"])
        if s.get("ghost"):
            paths = paths + ["data/not_there.parquet"]
        if not paths:
            return
        spelled = [("/" + p) if s.get("slash") else p for p in paths]
        with_tx = lambda: self._tx(lambda tx: tx.delete_files(spelled))
        self._guard("delete_files", with_tx)
        gone = set(paths)
        keep = self.cur_files() - gone
        rows = collections.Counter()
        for p in keep:
            rows.update(canon_row(r) for r in self.file_rows[p])
        self._sync(expect_new={"files": keep, "n_new": 0, "rows": rows}, op="delete_files")

    def _tx(self, body):
        with self.t.new_transaction() as tx:
            body(tx)
            tx.commit()

    def _cutoff(self, spec):
        kind, i = spec
        ts = [self.snaps[x]["ts"] for x in self.retained]
        if kind == "past" or not ts:
            return 0 if kind != "future" else self.clock.ms + 10**6
        if kind == "future":
            return max(max(ts), self.clock.ms) + 10**6
        t = ts[i % len(ts)]
        return t if kind == "at" else t + 1

    def _expire_expected(self, cutoff, current_after):
        return {i for i in self.retained if self.snaps[i]["ts"] < cutoff and i != current_after}

    def op_expire(self, s):
        cutoff = self._cutoff(s["cut"])
        want = self._expire_expected(cutoff, self.current)
        self._guard("expire", lambda: self._tx(lambda tx: tx.expire_snapshots(cutoff)))
        before = self.current
        self._sync(expect_new=None, expect_removed=want, op="expire")
        if before is not None and self.current != before:
            self.v("C15", "current-expired/expire", f"expire moved/removed the current snapshot {before} -> {self.current}")
        if want:
            self.labels["expired>0"] += 1

    def op_delete_snapshot(self, s):
        if s["which"] == "missing":
            r = self._guard("delete_snapshot", lambda: self.t.snapshot_manager.delete_snapshot(12345))
            self._sync(expect_new=None, expect_removed=set(), op="delete_snapshot")
            return
        if not self.retained:
            return
        sid = self.current if s["which"] == "current" else self.retained[s["which"] % len(self.retained)]
        was_current = sid == self.current
        survivors = [i for i in self.retained if i != sid]
        self._guard("delete_snapshot", lambda: self.t.snapshot_manager.delete_snapshot(sid))
        self._sync(expect_new=None, expect_removed={sid}, op="delete_snapshot")
        if was_current:
            self.labels["deleted-current"] += 1
            want = survivors[-1] if survivors else None
            if self.current != want:
                self.v("C09", "repoint/delete_snapshot", f"deleting current snapshot {sid} repointed to {self.current}, most recently committed survivor is {want}")
        else:
            if self.current is None and survivors:
                self.v("C09", "repoint/delete_snapshot", "current lost although not deleted")

    def op_set_prop(self, s):
        def do():
            mm = self.t.metadata_manager
            base = mm.refresh()
            new = copy.deepcopy(base)
            new.properties[s["key"]] = s["value"]
            mm.commit(base, new)

        self._guard("set_prop", do)
        if s["key"] == PREVMAX:
            try:
                v = int(s["value"])
                self.prev_max = v if v >= 1 else self.prev_max
            except (TypeError, ValueError):
                self.prev_max = 100
        self._sync(expect_new=None, expect_removed=set(), op="set_prop")

    def op_txn(self, s):
        """multi-operation transaction: appends + optional delete + optional expire, one commit."""
        batches = [self.rows(n) for n in s["appends"]]
        paths = self._pick_files(s.get("delete", []))
        cutoff = self._cutoff(s["expire"]) if s.get("expire") else None

        def body(tx):
            for b in batches:
                tx.append_data(b)
            if paths:
                tx.delete_files(paths)
            if cutoff is not None:
                tx.expire_snapshots(cutoff)

        if not batches and not paths and cutoff is None:
            return
        self._guard("txn", lambda: self._tx(body))
        if batches or paths:
            keep = self.cur_files() - set(paths)
            rows = collections.Counter()
            for p in keep:
                rows.update(canon_row(r) for r in self.file_rows[p])
            for b in batches:
                rows.update(rows_multiset(b))
            before = self.current
            self._sync(expect_new={"files": keep, "n_new": len(batches), "rows": rows}, op="txn")
            self.labels["txn-multi"] += 1
        else:
            want = self._expire_expected(cutoff, self.current)
            self._sync(expect_new=None, expect_removed=want, op="txn-expire")

    def op_failed_commit(self, s):
        """An append whose pointer write fails: must leave every retained snapshot untouched."""
        st_ = self.t.storage
        orig = st_.write_file

        def failing(path, content):
            if path == HINT:
                raise OSError("injected: pointer write failed")
            return orig(path, content)

        redo = None
        if s.get("reappend") is not None and not self.open_txns:
            # the failing transaction hands in a DataFile the table already lists (an ingestion re-run, or the usual way to undo a
            # delete_files): the file is the TABLE's - a rollback must not treat it as its own
            paths = self._pick_files([s["reappend"]])
            dfs = [df for df in self.t._get_all_data_files() if paths and norm(df.file_path) == paths[0]]
            redo = dfs[0] if dfs else None
        st_.write_file = failing
        try:
            try:
                if redo is not None:
                    self.labels["failed-commit-of-listed-file"] += 1
                    self.t.append_data([redo])
                else:
                    self.t.append_records(self.rows(1))
                self.v("ENG", "failed-commit-succeeded", "append returned although the pointer write raised")
            except OSError:
                pass
        finally:
            del st_.write_file
        self._note_orphans("failed-commit")
        self._sync(expect_new=None, expect_removed=set(), op="failed_commit")

    def op_append_twins(self, s):
        """Pre-built parquet files registered with append_data([DataFile, ...]): two files with the SAME base name in two
        directories (data/p=a/part-N.parquet, data/p=b/part-N.parquet), as a partitioned writer produces them. They are
        different files: deleting one later must leave the other alone."""
        import pyarrow as pa
        import pyarrow.parquet as pq
        from datashard import DataFile, FileFormat

        if self.open_txns:
            return
        n = getattr(self, "twin_no", 0)
        self.twin_no = n + 1
        dfs, rows_all = [], []
        sch = pa.schema([pa.field("k", pa.int64()), pa.field("s", pa.string())])
        for part in ("a", "b"):
            rows = self.rows(1)
            rel = f"data/p={part}/part-{n:05d}.parquet"
            path = os.path.join(self.root, rel)
            os.makedirs(os.path.dirname(path), exist_ok=True)
            pq.write_table(pa.Table.from_pylist(rows, schema=sch), path)
            dfs.append(DataFile(file_path="/" + rel, file_format=FileFormat.PARQUET, partition_values={}, record_count=1, file_size_in_bytes=os.path.getsize(path)))
            rows_all += rows
        self._guard("append_twins", lambda: self.t.append_data(dfs))
        self.labels["same-basename-files"] += 1
        self._sync(expect_new={"files": self.cur_files(), "n_new": 2, "rows": self.cur_rows() + rows_multiset(rows_all)}, op="append_twins")

    def op_reappend_file(self, s):
        """A data file that the current snapshot already lists is appended AGAIN (an ingestion re-run handing in the same
        DataFile): the library accepts it and lists the path in a second manifest; readers count a path once. Model: a new
        snapshot with the same file set and rows - and a later delete_files of that path must remove it from EVERY manifest."""
        paths = self._pick_files([s["pick"]])
        if not paths or self.open_txns:
            return
        want = paths[0]
        dfs = [df for df in self.t._get_all_data_files() if norm(df.file_path) == want]
        if not dfs:
            return
        self._guard("reappend_file", lambda: self.t.append_data([dfs[0]]))
        self.labels["file-listed-twice"] += 1
        self._sync(expect_new={"files": self.cur_files(), "n_new": 0, "rows": self.cur_rows()}, op="reappend_file")

    def op_racing_append(self, s):
        """An append that LOSES a commit race: while its first commit attempt is on its way, a second handle commits an append
        (forced, not timed: the interloper runs inside a one-shot wrapper around this handle's MetadataManager.commit); the
        loser retries on the new base. The clock advances between the two. Model: the interloper's commit, then this one."""
        import datashard

        if self.open_txns:
            return
        rows_a, rows_b = self.rows(s["n"]), self.rows(1)
        other = datashard.load_table(self.location)
        mm = self.t.metadata_manager
        orig = mm.commit
        fired = [False]

        def racing(base, new):
            if not fired[0]:
                fired[0] = True
                self.clock.tick(7)
                self._guard("racing_append", lambda: other.append_records(rows_b))
                self._sync(expect_new={"files": self.cur_files(), "n_new": 1, "rows": self.cur_rows() + rows_multiset(rows_b)}, op="racing_append:interloper")
                self.clock.tick(7)
            return orig(base, new)

        mm.commit = racing
        try:
            self._guard("racing_append", lambda: self.t.append_records(rows_a))
        finally:
            try:
                del mm.commit
            except AttributeError:
                pass
        if fired[0]:
            self.labels["lost-commit-race"] += 1
        self._sync(expect_new={"files": self.cur_files(), "n_new": 1, "rows": self.cur_rows() + rows_multiset(rows_a)}, op="racing_append")

    def _note_orphans(self, origin):
        from .reader import META_RE

        if not hasattr(self, "orphan_origin"):
            self.orphan_origin = {}
        for p in self.fs.list("metadata"):
            b = os.path.basename(p)
            if os.path.dirname(p) == "metadata" and META_RE.match(b) and b not in self.versions and b != self._pointer():
                self.orphan_origin.setdefault(b, origin)

    def op_crash_before_flip(self, s):
        """Process death between writing the new metadata file and the pointer flip: the surviving state
        is the directory as it was at that instant (no handler, finally or rollback of the dying run)."""
        import shutil

        st_ = self.t.storage
        orig = st_.write_file
        crash_dir = self.root + ".crash"

        def dying(path, content):
            if path == HINT:
                shutil.copytree(self.root, crash_dir, symlinks=True)
                raise OSError("injected: process died here")
            return orig(path, content)

        st_.write_file = dying
        try:
            try:
                self.t.append_records(self.rows(1))
            except OSError:
                pass
        finally:
            del st_.write_file
        if os.path.isdir(crash_dir):
            shutil.rmtree(self.root)
            os.rename(crash_dir, self.root)
            import datashard

            self.t = datashard.load_table(self.location)
            self.crash_orphans = getattr(self, "crash_orphans", 0) + 1
        self._note_orphans("crash")
        self._sync(expect_new=None, expect_removed=set(), op="crash_before_flip")

    # ---- GC-related
    def op_age(self, s):
        from .lib import age_tree

        # in-flight markers of OPEN transactions are left fresh: a live transaction's marker younger than 24 h counts as live.
        # Markers that a COMMITTED transaction failed to remove (append_markers_left) age like everything else.
        left = getattr(self, "left_markers", set())
        age_tree(self.root, s["s"], only=lambda rel: rel.startswith("data") or rel.startswith("metadata/manifests") or rel in left)
        self.labels["aged"] += 1

    def op_append_markers_left(self, s):
        """An append that commits, but whose best-effort removal of its in-flight markers fails (storage error on the marker
        deletes): the markers stay behind, naming files of a COMMITTED snapshot. However old they get, those files are live."""
        rows = self.rows(s["n"])
        st_ = self.t.storage
        orig = st_.delete_file

        def failing(path):
            if "inflight" in str(path):
                raise OSError(5, "injected: cannot delete marker")
            return orig(path)

        before = set(self.fs.list("metadata/inflight"))
        st_.delete_file = failing
        try:
            self._guard("append_markers_left", lambda: self.t.append_records(rows))
        finally:
            try:
                del st_.delete_file
            except AttributeError:
                pass
        new = set(self.fs.list("metadata/inflight")) - before
        if not hasattr(self, "left_markers"):
            self.left_markers = set()
        self.left_markers |= new
        if new:
            self.labels["committed-with-markers-left"] += 1
        self._sync(expect_new={"files": self.cur_files(), "n_new": 1, "rows": self.cur_rows() + rows_multiset(rows)}, op="append_markers_left")

    def op_plant(self, s):
        kind = s["kind"]
        if kind in ("link", "mlink"):
            # an unreferenced ALIAS (relative symlink) of a live data file / manifest inside the table: the alias is an orphan and may
            # go, what it points to is reachable and must stay
            live = sorted(self.cur_files()) if kind == "link" else sorted(f for f in self.fs.list("metadata/manifests") if "/manifest_" in f and "manifest_list" not in f)
            if not live:
                return
            target = live[self.step_no % len(live)].lstrip("/")
            name = ("data/alias_%d.parquet" if kind == "link" else "metadata/manifests/alias_%d.avro") % self.step_no
            p = os.path.join(self.root, name)
            if not os.path.exists(os.path.join(self.root, target)) or os.path.lexists(p):
                return
            os.symlink(os.path.relpath(os.path.join(self.root, target), os.path.dirname(p)), p)
            t = time.time() - s.get("age_s", 0)
            os.utime(p, (t, t), follow_symlinks=False)
            self.labels["planted-alias-of-live-file"] += 1
            return
        name = {"data": f"data/orphan_{self.step_no}.parquet", "manifest": f"metadata/manifests/manifest_orphan_{self.step_no}.avro",
                "tmp": f"data/.tmp.left_{self.step_no}.parquet", "mlist": f"metadata/manifests/manifest_list_9_{self.step_no}_dead.avro"}[kind]
        p = os.path.join(self.root, name)
        os.makedirs(os.path.dirname(p), exist_ok=True)
        with open(p, "wb") as f:
            f.write(b"orphan")
        t = time.time() - s.get("age_s", 0)
        os.utime(p, (t, t))

    def op_open_txn(self, s):
        tx = self.t.new_transaction().begin()
        rows = self.rows(s["n"])
        before = set(self.fs.list("data")) | set(self.fs.list("metadata/inflight"))
        self._guard("open_txn", lambda: tx.append_data(rows))
        after = set(self.fs.list("data")) | set(self.fs.list("metadata/inflight"))
        self.open_txns.append({"tx": tx, "files": sorted(after - before), "rows": rows})
        if s.get("age_s"):
            for rel in after - before:
                if rel.startswith("data"):
                    t = time.time() - s["age_s"]
                    os.utime(os.path.join(self.root, rel), (t, t))

    def op_commit_open(self, s):
        if not self.open_txns:
            return
        o = self.open_txns.pop(s.get("i", 0) % len(self.open_txns))
        self._guard("commit_open", lambda: o["tx"].commit())
        self._sync(expect_new={"files": self.cur_files(), "n_new": 1, "rows": self.cur_rows() + rows_multiset(o["rows"])}, op="commit_open")

    def op_rollback_open(self, s):
        if not self.open_txns:
            return
        o = self.open_txns.pop(s.get("i", 0) % len(self.open_txns))
        self._guard("rollback_open", lambda: o["tx"].rollback())
        self._sync(expect_new=None, expect_removed=set(), op="rollback_open")

    def op_gc(self, s):
        grace = s["grace_ms"]
        try:
            view = read_view(self.fs, rows=False)
        except ReadError:
            raise Stop()
        R = reachable_files(view)
        P = set()
        for o in self.open_txns:
            P.update(o["files"])
        listing = lambda: set(self.fs.list("data")) | set(self.fs.list("metadata/manifests")) | set(self.fs.list("metadata/inflight"))
        L = listing()
        now = time.time()
        ages = {}
        for rel in L:
            try:
                ages[rel] = now - os.path.getmtime(os.path.join(self.root, rel))
            except OSError:
                pass
        raised = None
        try:
            stats = self.t.garbage_collect(grace_period_ms=grace)
        except Exception as e:  # noqa
            raised = e
        L2 = listing()
        deleted = L - L2
        self.labels["gc"] += 1
        live = [d for d in deleted if d in R or d in P]
        if live:
            what = "reachable" if any(d in R for d in live) else "in-flight"
            self.v("C05", f"gc-deleted-{what}", f"garbage_collect(grace={grace}) deleted {sorted(live)[:3]} (reachable from a retained snapshot / registered by a live transaction); location={self.location!r}")
        if raised is not None:
            self.labels["gc-raised"] += 1
            if deleted:
                self.v("C05", "gc-raised-but-deleted", f"garbage_collect raised {type(raised).__name__} after deleting {sorted(deleted)[:3]}")
            self.v("C05", f"gc-raised/{type(raised).__name__}", f"garbage_collect raised on an intact table: {str(raised)[:200]}; location={self.location!r}")
        else:
            # effectiveness: unreferenced, unprotected data / manifest files older than grace are removed
            margin = 5.0
            protected_names = set()
            for o in self.open_txns:
                protected_names.update(o["files"])
            # a marker that a committed transaction failed to remove keeps protecting what it names until it is 24 h old
            for mk in getattr(self, "left_markers", set()):
                if ages.get(mk, 10**9) < 86400 - margin:
                    try:
                        protected_names.add(norm(json.loads(self.fs.get(mk).decode("utf-8"))["file_path"]))
                    except Exception:
                        protected_names.add("data/" + os.path.basename(mk)[: -len(".inflight")])
                        protected_names.add("metadata/manifests/" + os.path.basename(mk)[: -len(".inflight")])
            for rel in sorted(L2):
                if rel.startswith("metadata/inflight"):
                    continue
                if rel in R or rel in P or rel in protected_names:
                    continue
                a = ages.get(rel)
                if a is not None and a > grace / 1000.0 + margin:
                    self.v("C05", "gc-left-orphan", f"orphan {rel} (age {a:.0f}s > grace {grace / 1000:.0f}s) was not removed; location={self.location!r}")
                    break
            if any(ages.get(rel, 0) > grace / 1000.0 + margin and rel not in R and rel not in P and not rel.startswith("metadata/inflight") for rel in L):
                self.labels["gc-eligible-orphan"] += 1
        if len(self.retained) >= 2:
            self.labels["gc-with>=2-snapshots"] += 1
        if self.open_txns:
            self.labels["gc-with-live-txn"] += 1
        # every retained snapshot still reads back identical rows
        self._sync(expect_new=None, expect_removed=set(), op="gc")


# ---------------------------------------------------------------------------------------------
# Hypothesis strategy for histories
# ---------------------------------------------------------------------------------------------
CUT = st.tuples(st.sampled_from(["at", "between", "future", "past"]), st.integers(0, 6))


def step_strategy(gc=True, clock_ticks="forward", props_ops=True, open_txn=True):
    ticks = {"forward": st.integers(0, 50), "any": st.integers(-200, 50), "none": None}[clock_ticks]
    ss = [
        (6, st.builds(lambda n: {"op": "append", "n": n}, st.integers(0, 3))),
        (3, st.builds(lambda pick, slash, ghost: {"op": "delete_files", "pick": pick, "slash": slash, "ghost": ghost},
                      st.lists(st.integers(0, 8), min_size=1, max_size=3), st.booleans(), st.integers(0, 9).map(lambda x: x == 0))),
        (3, st.builds(lambda cut: {"op": "expire", "cut": cut}, CUT)),
        (3, st.builds(lambda w: {"op": "delete_snapshot", "which": w}, st.one_of(st.integers(0, 6), st.just("current"), st.just("current"), st.just("missing")))),
        (2, st.builds(lambda a, d, e: {"op": "txn", "appends": a, "delete": d, "expire": e},
                      st.lists(st.integers(1, 2), max_size=3), st.lists(st.integers(0, 8), max_size=2), st.one_of(st.none(), CUT))),
        (1, st.just({"op": "failed_commit"})),
        (1, st.builds(lambda i: {"op": "failed_commit", "reappend": i}, st.integers(0, 8))),
        (1, st.just({"op": "reopen"})),
        (2, st.builds(lambda n: {"op": "racing_append", "n": n}, st.integers(1, 2))),
        (1, st.builds(lambda i: {"op": "reappend_file", "pick": i}, st.integers(0, 8))),
        (1, st.just({"op": "append_twins"})),
    ]
    if ticks is not None:
        ss.append((3, st.builds(lambda ms: {"op": "tick", "ms": ms}, ticks)))
    if props_ops:
        ss.append((1, st.builds(lambda v: {"op": "set_prop", "key": RETENTION, "value": v}, st.sampled_from(["1", "2", "3", "5", "x", "0"]))))
        ss.append((1, st.builds(lambda v: {"op": "set_prop", "key": PREVMAX, "value": v}, st.sampled_from(["1", "2", "3", "100", "abc"]))))
    if gc:
        ss.append((3, st.builds(lambda g: {"op": "gc", "grace_ms": g}, st.sampled_from([0, 3600000, 36000000]))))
        ss.append((2, st.builds(lambda s_: {"op": "age", "s": s_}, st.sampled_from([7200, 90000, 100]))))
        ss.append((1, st.builds(lambda n: {"op": "append_markers_left", "n": n}, st.integers(1, 2))))
        ss.append((2, st.builds(lambda k, a: {"op": "plant", "kind": k, "age_s": a}, st.sampled_from(["data", "manifest", "tmp", "mlist", "link", "mlink"]), st.sampled_from([0, 7200, 90000]))))
    if open_txn:
        ss.append((1, st.builds(lambda n, a: {"op": "open_txn", "n": n, "age_s": a}, st.integers(1, 2), st.sampled_from([0, 7200]))))
        ss.append((1, st.builds(lambda i: {"op": "commit_open", "i": i}, st.integers(0, 2))))
        ss.append((1, st.builds(lambda i: {"op": "rollback_open", "i": i}, st.integers(0, 2))))
    weighted = []
    for w, s_ in ss:
        weighted.extend([s_] * w)
    return st.one_of(*weighted)


def _macros(gc=True, back=False):
    """Multi-step idioms that random single steps rarely line up: a multi-file commit, a partial delete (manifest rewritten with
    EXISTING-only entries), removal of the snapshot that originally added the files, then (optionally) ageing + collection."""
    tail = [{"op": "age", "s": 7200}, {"op": "gc", "grace_ms": 0}] if gc else []
    return st.sampled_from([
        [{"op": "txn", "appends": [1, 1], "delete": [], "expire": None}, {"op": "delete_files", "pick": [0], "slash": True, "ghost": False},
         {"op": "expire", "cut": ("future", 0)}] + tail,
        [{"op": "txn", "appends": [1, 2, 1], "delete": [], "expire": None}, {"op": "delete_files", "pick": [1], "slash": False, "ghost": False},
         {"op": "delete_snapshot", "which": 0}, {"op": "delete_snapshot", "which": 0}] + tail + [{"op": "append", "n": 1}],
        [{"op": "append", "n": 1}, {"op": "txn", "appends": [1, 1], "delete": [0], "expire": ("future", 0)}] + tail,
        [{"op": "append", "n": 1}, {"op": "reappend_file", "pick": 0}, {"op": "append", "n": 1}, {"op": "delete_files", "pick": [0], "slash": False, "ghost": False}] + tail,
        [{"op": "append_twins"}, {"op": "append", "n": 1}, {"op": "delete_files", "pick": [0], "slash": True, "ghost": False}] + tail,
    ] + ([[{"op": "append_markers_left", "n": 1}, {"op": "append", "n": 1}, {"op": "age", "s": 90000}, {"op": "gc", "grace_ms": 3600000}, {"op": "append", "n": 1}],
          [{"op": "append", "n": 1}, {"op": "plant", "kind": "link", "age_s": 7200}, {"op": "plant", "kind": "mlink", "age_s": 7200}, {"op": "age", "s": 7200}, {"op": "gc", "grace_ms": 3600000}]] if gc else [])
      + ([
          # retention trimming while the wall clock stepped back between commits (timestamp order != commit order), then the current snapshot goes
          [{"op": "set_prop", "key": RETENTION, "value": "3"}, {"op": "append", "n": 1}, {"op": "tick", "ms": 50}, {"op": "append", "n": 1}, {"op": "tick", "ms": -120},
           {"op": "append", "n": 1}, {"op": "tick", "ms": 5}, {"op": "append", "n": 1}, {"op": "delete_snapshot", "which": "current"}],
          [{"op": "append", "n": 1}, {"op": "tick", "ms": 40}, {"op": "append", "n": 1}, {"op": "tick", "ms": -200}, {"op": "append", "n": 1}, {"op": "set_prop", "key": RETENTION, "value": "2"},
           {"op": "append", "n": 1}, {"op": "delete_snapshot", "which": "current"}, {"op": "delete_snapshot", "which": "current"}],
      ] if back else []))


def history_strategy(max_steps=25, **kw):
    single = step_strategy(**kw).map(lambda s_: [s_])
    chunks = st.lists(st.one_of(single, single, single, single, single, single, single, _macros(gc=kw.get("gc", True), back=kw.get("clock_ticks") == "any")), min_size=3, max_size=max_steps)
    return chunks.map(lambda cs: [s_ for c in cs for s_ in c][: max_steps + 6])
