"""In-memory, strongly consistent stand-in for the boto3 S3 client, plus the glue that lets the
library build a complete S3 table offline.

* ETag = '"md5(body)"' exactly as S3/MinIO compute it for single-part objects (two PUTs of the same
  body have the same ETag - this matters for the lock renewal logic).
* Conditional PUT: IfNoneMatch='*' and IfMatch=<etag>; failures raise botocore ClientError with the
  codes the library switches on.
* Every request calls hook('before'| 'after', op, key, request) - used to inject faults (raise
  before effect = request never arrived; raise after effect = succeeded server-side, failed
  client-side) and as scheduler yield points.
* list_objects_v2 paginates (page_size keys per page) to exercise the paginator path.
"""
from __future__ import annotations

import contextlib
import datetime as dt
import hashlib
import io
import os
import types

from botocore.exceptions import ClientError


def client_error(code, op, status=400, msg=""):
    return ClientError({"Error": {"Code": code, "Message": msg or code}, "ResponseMetadata": {"HTTPStatusCode": status}}, op)


class _Body:
    def __init__(self, data, on_read=None):
        self._b = io.BytesIO(data)
        self._on_read = on_read

    def read(self, n=None):
        if self._on_read is not None:
            self._on_read()  # may raise: the connection dropped while the body was streaming
        return self._b.read() if n is None or n < 0 else self._b.read(n)

    def close(self):
        pass


class FakeS3:
    def __init__(self, page_size=2):
        self.objects = {}  # key -> dict(body, etag, mtime)
        self.log = []  # (op, key, info)
        self.hook = None
        self.page_size = page_size
        self.skew = dt.timedelta(0)

    # ---- helpers
    def now(self):
        return dt.datetime.now(dt.timezone.utc) + self.skew

    def _h(self, phase, op, key, req):
        if self.hook is not None:
            self.hook(phase, op, key, req)

    @staticmethod
    def etag_of(body):
        return '"' + hashlib.md5(body).hexdigest() + '"'

    def age(self, seconds, prefix=""):
        for k, o in self.objects.items():
            if k.startswith(prefix):
                o["mtime"] = o["mtime"] - dt.timedelta(seconds=seconds)

    def raw_put(self, key, body, mtime=None):
        self.objects[key] = {"body": bytes(body), "etag": self.etag_of(bytes(body)), "mtime": mtime or self.now()}

    def snapshot(self):
        return {k: dict(v) for k, v in self.objects.items()}

    # ---- API
    def put_object(self, Bucket, Key, Body, IfMatch=None, IfNoneMatch=None, **kw):
        if hasattr(Body, "read"):
            Body = Body.read()
        Body = bytes(Body)
        req = {"IfMatch": IfMatch, "IfNoneMatch": IfNoneMatch, "size": len(Body), "body": Body}
        self._h("before", "put", Key, req)
        cur = self.objects.get(Key)
        if IfNoneMatch is not None:
            if cur is not None:
                self.log.append(("put", Key, {"cond": "IfNoneMatch", "ok": False}))
                raise client_error("PreconditionFailed", "PutObject", 412)
        if IfMatch is not None:
            if cur is None:
                self.log.append(("put", Key, {"cond": "IfMatch", "ok": False, "missing": True}))
                raise client_error("NoSuchKey", "PutObject", 404)
            if cur["etag"] != IfMatch:
                self.log.append(("put", Key, {"cond": "IfMatch", "ok": False}))
                raise client_error("PreconditionFailed", "PutObject", 412)
        prev = cur["body"] if cur else None
        now = self.now()
        self.objects[Key] = {"body": Body, "etag": self.etag_of(Body), "mtime": now}
        self.log.append(("put", Key, {"cond": "IfMatch" if IfMatch else ("IfNoneMatch" if IfNoneMatch else None), "ok": True, "prev": prev, "body": Body,
                                      "prev_age_s": (now - cur["mtime"]).total_seconds() if cur else None}))
        req["landed"] = True
        self._h("after", "put", Key, req)
        return {"ETag": self.objects[Key]["etag"]}

    def get_object(self, Bucket, Key, Range=None, **kw):
        req = {"Range": Range}
        self._h("before", "get", Key, req)
        o = self.objects.get(Key)
        if o is None:
            self.log.append(("get", Key, {"ok": False}))
            raise client_error("NoSuchKey", "GetObject", 404)
        body = o["body"]
        if Range is not None:
            assert Range.startswith("bytes="), Range
            a, b = Range[6:].split("-")
            a = int(a)
            b = int(b) if b != "" else len(body) - 1
            self.log.append(("get", Key, {"ok": True, "range": (a, b), "size": len(body)}))
            if a >= len(body) or a > b:
                raise client_error("InvalidRange", "GetObject", 416)
            data = body[a:b + 1]
        else:
            self.log.append(("get", Key, {"ok": True, "body": body}))
            data = body
        resp = {"Body": _Body(data, (lambda: self._h("body", "get", Key, req)) if self.hook is not None else None), "ETag": o["etag"],
                "ContentLength": len(data), "LastModified": o["mtime"]}
        self._h("after", "get", Key, req)
        return resp

    def head_object(self, Bucket, Key, **kw):
        req = {}
        self._h("before", "head", Key, req)
        o = self.objects.get(Key)
        if o is None:
            self.log.append(("head", Key, {"ok": False}))
            raise client_error("404", "HeadObject", 404, "Not Found")
        self.log.append(("head", Key, {"ok": True}))
        resp = {"ETag": o["etag"], "ContentLength": len(o["body"]), "LastModified": o["mtime"]}
        self._h("after", "head", Key, req)
        return resp

    def delete_object(self, Bucket, Key, **kw):
        req = {}
        self._h("before", "delete", Key, req)
        if kw.get("IfMatch") is not None:
            # conditional delete: evaluated when the request lands
            cur = self.objects.get(Key)
            if cur is None:
                self.log.append(("delete", Key, {"existed": False, "prev": None, "cond": "IfMatch", "ok": False}))
                raise client_error("NoSuchKey", "DeleteObject", 404)
            if cur["etag"] != kw["IfMatch"]:
                self.log.append(("delete", Key, {"existed": False, "prev": cur["body"], "cond": "IfMatch", "ok": False}))
                raise client_error("PreconditionFailed", "DeleteObject", 412)
        existed = self.objects.pop(Key, None)
        self.log.append(("delete", Key, {"existed": existed is not None, "prev": existed["body"] if existed else None,
                                         "prev_age_s": (self.now() - existed["mtime"]).total_seconds() if existed else None}))
        req["landed"] = True
        self._h("after", "delete", Key, req)
        return {}

    def list_objects_v2(self, Bucket, Prefix="", MaxKeys=1000, ContinuationToken=None, **kw):
        req = {"Prefix": Prefix}
        self._h("before", "list", Prefix, req)
        keys = sorted(k for k in self.objects if k.startswith(Prefix))
        start = int(ContinuationToken) if ContinuationToken else 0
        n = min(MaxKeys, self.page_size)
        page = keys[start:start + n]
        resp = {"KeyCount": len(page), "IsTruncated": start + n < len(keys)}
        if page:
            resp["Contents"] = [{"Key": k, "Size": len(self.objects[k]["body"]), "ETag": self.objects[k]["etag"],
                                 "LastModified": self.objects[k]["mtime"]} for k in page]
        if resp["IsTruncated"]:
            resp["NextContinuationToken"] = str(start + n)
        self.log.append(("list", Prefix, {"n": len(page)}))
        self._h("after", "list", Prefix, req)
        return resp

    def get_paginator(self, name):
        assert name == "list_objects_v2", name
        fake = self

        class P:
            def paginate(self, Bucket, Prefix="", PaginationConfig=None, **kw):
                # botocore semantics: PageSize = keys per request (capped by the store), MaxItems = TOTAL keys returned
                cfg = PaginationConfig or {}
                max_items = cfg.get("MaxItems")
                page_size = cfg.get("PageSize")
                token, sent = cfg.get("StartingToken"), 0
                while True:
                    extra = {"MaxKeys": int(page_size)} if page_size else {}
                    r = fake.list_objects_v2(Bucket=Bucket, Prefix=Prefix, ContinuationToken=token, **extra)
                    if max_items is not None and "Contents" in r:
                        room = int(max_items) - sent
                        if len(r["Contents"]) > room:
                            r = dict(r, Contents=r["Contents"][:max(room, 0)], KeyCount=max(room, 0))
                            yield r
                            return
                    sent += len(r.get("Contents", []))
                    yield r
                    if not r.get("IsTruncated") or (max_items is not None and sent >= int(max_items)):
                        return
                    token = r["NextContinuationToken"]

        return P()


# ---------------------------------------------------------------------------------------------
# pyarrow filesystem writing into the fake (the library uses pyarrow's S3FileSystem only to WRITE)
# ---------------------------------------------------------------------------------------------
def make_arrow_fs(fake: FakeS3):
    import pyarrow as pa
    import pyarrow.fs as pafs

    class _Out(io.BytesIO):
        def __init__(self, key):
            super().__init__()
            self._key = key
            self._done = False

        def close(self):
            if not self._done:
                self._done = True
                data = self.getvalue()
                super().close()
                bucket, _, key = self._key.partition("/")
                fake.put_object(Bucket=bucket, Key=key, Body=data)

    class Handler(pafs.FileSystemHandler):
        def get_type_name(self):
            return "fakes3"

        def normalize_path(self, path):
            return path

        def _info(self, path):
            _b, _, key = path.partition("/")
            o = fake.objects.get(key)
            if o is not None:
                return pafs.FileInfo(path, pafs.FileType.File, size=len(o["body"]))
            if any(k.startswith(key.rstrip("/") + "/") for k in fake.objects):
                return pafs.FileInfo(path, pafs.FileType.Directory)
            return pafs.FileInfo(path, pafs.FileType.NotFound)

        def get_file_info(self, paths):
            return [self._info(p) for p in paths]

        def get_file_info_selector(self, selector):
            return []

        def create_dir(self, path, recursive):
            pass

        def delete_dir(self, path):
            pass

        def delete_dir_contents(self, path, missing_dir_ok=False):
            pass

        def delete_root_dir_contents(self):
            pass

        def delete_file(self, path):
            _b, _, key = path.partition("/")
            fake.delete_object(Bucket=_b, Key=key)

        def move(self, src, dest):
            raise NotImplementedError

        def copy_file(self, src, dest):
            raise NotImplementedError

        def open_input_stream(self, path):
            _b, _, key = path.partition("/")
            return pa.BufferReader(fake.get_object(Bucket=_b, Key=key)["Body"].read())

        def open_input_file(self, path):
            return self.open_input_stream(path)

        def open_output_stream(self, path, metadata):
            return pa.PythonFile(_Out(path), mode="w")

        def open_append_stream(self, path, metadata):
            raise NotImplementedError

    return pafs.PyFileSystem(Handler())


class _NoSleepTime:
    """time module stand-in: sleep() only advances a virtual offset (no real waiting)."""

    def __init__(self):
        import time as _t

        self._t = _t
        self.offset = 0.0
        self.sleeps = []

    def sleep(self, s):
        self.sleeps.append(s)
        self.offset += s

    def time(self):
        return self._t.time() + self.offset

    def monotonic(self):
        return self._t.monotonic() + self.offset

    def __getattr__(self, n):
        return getattr(self._t, n)


@contextlib.contextmanager
def s3_env(fake: FakeS3, bucket="bkt", env_prefix="", conditional=True, virtual_sleep=True):
    """Route the library to the fake: env vars, boto3 client factory, pyarrow S3FileSystem."""
    import pyarrow.fs as pafs
    import datashard.lock_provider as LP
    import datashard.s3_consistency as SC
    import datashard.storage_backend as SB

    class _Session:
        def client(self, name, **cfg):
            return fake

    fake_boto3 = types.SimpleNamespace(session=types.SimpleNamespace(Session=_Session))
    saved_env = {k: os.environ.get(k) for k in ("DATASHARD_STORAGE_TYPE", "DATASHARD_S3_BUCKET", "DATASHARD_S3_PREFIX", "DATASHARD_S3_USE_CONDITIONAL_WRITES",
                                                "DATASHARD_S3_ENDPOINT", "DATASHARD_S3_ACCESS_KEY", "DATASHARD_S3_SECRET_KEY")}
    os.environ["DATASHARD_STORAGE_TYPE"] = "s3"
    os.environ["DATASHARD_S3_BUCKET"] = bucket
    os.environ["DATASHARD_S3_PREFIX"] = env_prefix
    os.environ["DATASHARD_S3_USE_CONDITIONAL_WRITES"] = "true" if conditional else "false"
    for k in ("DATASHARD_S3_ENDPOINT", "DATASHARD_S3_ACCESS_KEY", "DATASHARD_S3_SECRET_KEY"):
        os.environ.pop(k, None)
    old_boto, old_fs = SB.boto3, pafs.S3FileSystem
    arrow_fs = make_arrow_fs(fake)
    SB.boto3 = fake_boto3
    pafs.S3FileSystem = lambda **kw: arrow_fs
    vt = _NoSleepTime()
    old_times = (LP.time, SC.time)
    if virtual_sleep:
        LP.time = vt
        SC.time = vt
    # no background heartbeat threads in sequential checks (renewals are explicit where needed)
    old_hb = LP.S3LockProviderBase._start_heartbeat
    LP.S3LockProviderBase._start_heartbeat = lambda self: None
    try:
        yield vt
    finally:
        LP.S3LockProviderBase._start_heartbeat = old_hb
        LP.time, SC.time = old_times
        SB.boto3 = old_boto
        pafs.S3FileSystem = old_fs
        for k, v in saved_env.items():
            if v is None:
                os.environ.pop(k, None)
            else:
                os.environ[k] = v
