"""Step instrumentation of the local storage path: every os-level call made from the library's
modules (storage_backend, data_operations, file_lock) and every public storage-backend method is a
numbered step with a before/after phase.  One handler decides per step: count, log, raise a fault,
raise an asynchronous interrupt, copy the directory (crash state), or park the thread (scheduler).
"""
from __future__ import annotations

import builtins
import contextlib
import os
import tempfile
import types


class Tracer:
    def __init__(self, root=None):
        self.root = os.path.realpath(root) if root else None
        self.events = []  # (n, phase, layer, name, target)
        self.n = 0
        self.handler = None  # handler(n, phase, layer, name, target, info) may raise
        self.enabled = True
        self.record = True

    def rel(self, p):
        try:
            if isinstance(p, int):
                p = os.readlink(f"/proc/self/fd/{p}")
            if isinstance(p, bytes):
                p = p.decode()
            p = str(p)
            if self.root:
                rp = p if os.path.isabs(p) else os.path.join(os.getcwd(), p)
                rp = os.path.normpath(rp)
                if rp.startswith(self.root + os.sep):
                    return rp[len(self.root) + 1:]
                if rp == self.root:
                    return "."
            return p
        except Exception:
            return repr(p)

    def fire(self, phase, layer, name, target, info=None):
        if not self.enabled:
            return
        if phase == "before":
            self.n += 1
        n = self.n
        if self.record:
            self.events.append((n, phase, layer, name, target))
        if self.handler is not None:
            self.handler(n, phase, layer, name, target, info)


def _wrap(tracer, layer, name, fn, target_of):
    def wrapped(*a, **kw):
        if not tracer.enabled:
            return fn(*a, **kw)
        try:
            tgt = target_of(tracer, a, kw)
        except Exception:
            tgt = "?"
        tracer.fire("before", layer, name, tgt, {"args": a})
        r = fn(*a, **kw)
        tracer.fire("after", layer, name, tgt, {"args": a, "result": r})
        return r

    wrapped.__name__ = getattr(fn, "__name__", name)
    return wrapped


def _first(tracer, a, kw):
    return tracer.rel(a[0]) if a else "?"


def _second(tracer, a, kw):
    return tracer.rel(a[1]) if len(a) > 1 else "?"


class ModProxy(types.ModuleType):
    """Module stand-in: selected functions are wrapped as steps, everything else passes through."""

    def __init__(self, real, wrapped):
        super().__init__(real.__name__)
        self.__dict__["_real"] = real
        self.__dict__["_wrapped"] = wrapped

    def __getattr__(self, n):
        w = self.__dict__["_wrapped"]
        if n in w:
            return w[n]
        return getattr(self.__dict__["_real"], n)


OS_FUNCS = {"open": _first, "write": _first, "fsync": _first, "close": _first, "replace": _second, "rename": _second, "remove": _first,
            "unlink": _first, "makedirs": _first}


class FileProxy:
    """File object returned by a traced os.fdopen(): bytes written sit in a user-space buffer until flush()/close();
    only then do they reach the kernel (event 'file.flush', which the durability model treats like os.write)."""

    def __init__(self, f, tracer, layer, fd):
        self._f, self._t, self._layer, self._fd = f, tracer, layer, fd
        self._pending = b""

    def write(self, data):
        self._pending += bytes(data)
        return self._f.write(data)

    def _flushed(self):
        if self._pending:
            data, self._pending = self._pending, b""
            tgt = self._t.rel(self._fd)
            self._t.fire("before", self._layer, "file.flush", tgt, {"args": (self._fd, data)})
            self._t.fire("after", self._layer, "file.flush", tgt, {"args": (self._fd, data)})

    def flush(self):
        r = self._f.flush()
        self._flushed()
        return r

    def close(self):
        tgt = self._t.rel(self._fd)
        pending = bool(self._pending)
        if pending:
            data, self._pending = self._pending, b""
            self._t.fire("before", self._layer, "file.flush", tgt, {"args": (self._fd, data)})
        r = self._f.close()
        if pending:
            self._t.fire("after", self._layer, "file.flush", tgt, {"args": (self._fd, data)})
        self._t.fire("after", self._layer, "os.close", tgt, {"args": (self._fd,)})
        return r

    def fileno(self):
        return self._f.fileno()

    def __enter__(self):
        return self

    def __exit__(self, *a):
        self.close()

    def __getattr__(self, n):
        return getattr(self._f, n)


def make_os_proxy(tracer, layer, funcs=None):
    w = {}
    for name, tof in (funcs or OS_FUNCS).items():
        w[name] = _wrap(tracer, layer, "os." + name, getattr(os, name), tof)

    def fdopen(fd, *a, **kw):
        return FileProxy(os.fdopen(fd, *a, **kw), tracer, layer, fd)

    w["fdopen"] = fdopen
    return ModProxy(os, w)


def make_tempfile_proxy(tracer, layer):
    def mkstemp(*a, **kw):
        d = kw.get("dir") or tempfile.gettempdir()
        tracer.fire("before", layer, "tempfile.mkstemp", tracer.rel(d), None)
        r = tempfile.mkstemp(*a, **kw)
        tracer.fire("after", layer, "tempfile.mkstemp", tracer.rel(r[1]), None)
        return r

    def named(*a, **kw):
        d = kw.get("dir") or tempfile.gettempdir()
        tracer.fire("before", layer, "tempfile.NamedTemporaryFile", tracer.rel(d), None)
        r = tempfile.NamedTemporaryFile(*a, **kw)
        tracer.fire("after", layer, "tempfile.NamedTemporaryFile", tracer.rel(r.name), None)
        return r

    return ModProxy(tempfile, {"mkstemp": mkstemp, "NamedTemporaryFile": named})


def make_fcntl_proxy(tracer, layer):
    import fcntl

    def flock(fd, op):
        kind = "LOCK_UN" if op & fcntl.LOCK_UN else "LOCK_EX"
        tracer.fire("before", layer, "fcntl.flock:" + kind, tracer.rel(fd), None)
        r = fcntl.flock(fd, op)
        tracer.fire("after", layer, "fcntl.flock:" + kind, tracer.rel(fd), None)
        return r

    return ModProxy(fcntl, {"flock": flock})


STORAGE_METHODS = ["read_file", "open_file", "open_seekable", "write_file", "exists", "list_files", "delete_file", "makedirs", "get_size",
                   "get_modified_time", "create_lock"]


def instrument_storage(storage, tracer, layer="storage"):
    """Wrap the public methods of a storage instance in place (instance attributes)."""
    for m in STORAGE_METHODS:
        fn = getattr(storage, m)
        setattr(storage, m, _wrap(tracer, layer, m, fn, lambda t, a, kw: str(a[0]) if a else "?"))
    return storage


@contextlib.contextmanager
def installed(tracer, storage_level=True, os_level=True, parquet_native=True):
    """Patch the library modules for the duration of a case."""
    import datashard.data_operations as DO
    import datashard.file_lock as FL
    import datashard.storage_backend as SB

    saved = []

    def setattr_(mod, name, val):
        saved.append((mod, name, mod.__dict__.get(name, _MISSING)))
        setattr(mod, name, val)

    if os_level:
        setattr_(SB, "os", make_os_proxy(tracer, "sb"))
        setattr_(SB, "tempfile", make_tempfile_proxy(tracer, "sb"))
        setattr_(DO, "os", make_os_proxy(tracer, "do"))
        setattr_(DO, "tempfile", make_tempfile_proxy(tracer, "do"))
        setattr_(FL, "os", make_os_proxy(tracer, "lock", {"open": _first, "close": _first, "makedirs": _first, "unlink": _first, "write": _first}))
        setattr_(FL, "fcntl", make_fcntl_proxy(tracer, "lock"))
        # any OTHER datashard module that talks to the operating system (e.g. a helper module that a refactoring moves the
        # fsync into) is traced too, so that the durability / crash models keep seeing every call
        import sys as _sys
        import types as _types

        for _name, _mod in list(_sys.modules.items()):
            if not _name.startswith("datashard.") or _mod in (SB, DO, FL) or _mod is None:
                continue
            if isinstance(_mod.__dict__.get("os"), _types.ModuleType):
                setattr_(_mod, "os", make_os_proxy(tracer, "sb"))
            if isinstance(_mod.__dict__.get("tempfile"), _types.ModuleType):
                setattr_(_mod, "tempfile", make_tempfile_proxy(tracer, "sb"))
        # builtin open() used by read paths of storage_backend
        real_open = builtins.open

        def sb_open(file, mode="r", *a, **kw):
            tracer.fire("before", "sb", "open:" + mode, tracer.rel(file), None)
            f = real_open(file, mode, *a, **kw)
            tracer.fire("after", "sb", "open:" + mode, tracer.rel(file), None)
            return f

        setattr_(SB, "open", sb_open)

        def do_open(file, mode="r", *a, **kw):
            tracer.fire("before", "do", "open:" + mode, tracer.rel(file), None)
            f = real_open(file, mode, *a, **kw)
            tracer.fire("after", "do", "open:" + mode, tracer.rel(file), None)
            return f

        setattr_(DO, "open", do_open)
        if parquet_native:
            # the native parquet writer is a single opaque step from Python's point of view
            import pyarrow.parquet as pq

            class PW(pq.ParquetWriter):
                _vf_where = "?"

                def __init__(self, where, *a, **kw):
                    self._vf_where = where
                    tracer.fire("before", "do", "ParquetWriter.open", tracer.rel(where), None)
                    super().__init__(where, *a, **kw)
                    tracer.fire("after", "do", "ParquetWriter.open", tracer.rel(where), None)

                def write_table(self, *a, **kw):
                    # rows streaming into the file (write_batch goes through here too): an I/O error can surface here as well (disk
                    # full, EIO on the flush of a row group)
                    tracer.fire("before", "do", "ParquetWriter.write", tracer.rel(self._vf_where), None)
                    r = super().write_table(*a, **kw)
                    tracer.fire("after", "do", "ParquetWriter.write", tracer.rel(self._vf_where), None)
                    return r

                def close(self):
                    if getattr(self, "is_open", False):
                        tracer.fire("before", "do", "ParquetWriter.close", tracer.rel(self._vf_where), None)
                        super().close()
                        tracer.fire("after", "do", "ParquetWriter.close", tracer.rel(self._vf_where), None)
                    else:
                        super().close()

            pqproxy = ModProxy(pq, {"ParquetWriter": PW})
            setattr_(DO, "pq", pqproxy)
    if storage_level:
        orig_create = SB.create_storage_backend

        def create(table_path):
            return instrument_storage(orig_create(table_path), tracer)

        setattr_(SB, "create_storage_backend", create)
    try:
        yield tracer
    finally:
        for mod, name, old in reversed(saved):
            if old is _MISSING:
                try:
                    delattr(mod, name)
                except AttributeError:
                    pass
            else:
                setattr(mod, name, old)


_MISSING = object()
