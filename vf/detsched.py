"""Deterministic cooperative scheduler: the harness, not the OS, owns the interleaving.

Actors are real threads but exactly one runs at a time.  At every yield point (a numbered step of
the instrumented storage layer, a virtual sleep, a blocked cooperative lock) the running actor
parks and the controller resumes the actor named by the schedule.

Schedule (plain JSON): {"order": [actor indices by priority], "preempt": [[decision_index, actor_index], ...]}
Default policy is non-preemptive: keep running the current actor while it is enabled, otherwise the
first enabled actor in `order`.  A preempt entry forces a switch at that decision index.
"""
from __future__ import annotations

import contextlib
import random as _random
import threading
import time as _time


class SchedAbort(BaseException):
    pass


class Deadlock(Exception):
    pass


NEW, RUNNABLE, SLEEPING, BLOCKED, DONE = "new", "runnable", "sleeping", "blocked", "done"


class Actor:
    def __init__(self, idx, name, fn):
        self.idx, self.name, self.fn = idx, name, fn
        self.sched = None
        self.state = NEW
        self.go = threading.Event()
        self.thread = None
        self.result = None
        self.exc = None
        self.steps = 0
        self.wake_at = 0.0
        self.sleep_mark = 0
        self.blocked_on = None
        self.started_at = None
        self.ended_at = None


class Scheduler:
    def __init__(self, schedule=None, max_decisions=20000, yield_filter=None, step_cost=0.01):
        schedule = schedule or {}
        self.step_cost = step_cost  # virtual seconds that pass per executed step (so that sleepers wake while others work)
        self.order = list(schedule.get("order", []))
        self.preempt = {int(i): int(j) for i, j in schedule.get("preempt", [])}
        # freeze: [[from_decision, actor_idx], ...] - from that decision on the actor is STOPPED (a paused process: it does not run
        # even while everybody else sleeps); it is thawed when nothing else can make progress any more
        self.freeze = [[int(i), int(j)] for i, j in schedule.get("freeze", [])]
        self.frozen_steps = 0
        self.actors = []
        self.by_thread = {}
        self.back = threading.Event()
        self.now = 1000.0  # virtual seconds
        self.decisions = 0
        self.global_steps = 0
        self.max_decisions = max_decisions
        self.aborting = False
        self.log = []  # (decision idx, actor idx, label, target)
        self.current = None
        self.yield_filter = yield_filter or (lambda label, target: True)
        self.on_event = None  # callback(actor, phase, label, target, info) run in the actor thread, while it is the only runner
        self.applied_preempts = 0
        self.error = None

    # ------------------------------------------------------------ setup
    def add(self, name, fn):
        a = Actor(len(self.actors), name, fn)
        a.sched = self
        self.actors.append(a)
        return a

    def me(self):
        # keyed by the thread OBJECT: thread idents are re-used (a thread-pool worker may get a finished actor's ident)
        a = getattr(threading.current_thread(), "_vf_actor", None)
        return a if a is not None and a.sched is self and a.state != DONE else None

    # ------------------------------------------------------------ called from actor threads
    def _park(self, a):
        """Hand control to the controller and wait to be resumed."""
        self.back.set()
        a.go.wait()
        a.go.clear()
        if self.aborting:
            raise SchedAbort()

    def step(self, phase, label, target, info=None):
        a = self.me()
        if a is None:
            return
        if self.on_event is not None:
            self.on_event(a, phase, label, target, info)
        if phase != "before" or not self.yield_filter(label, target):
            return
        a.steps += 1
        self.global_steps += 1
        self.now += self.step_cost
        self.log.append((self.decisions, a.idx, label, target))
        a.state = RUNNABLE
        self._park(a)

    def sleep(self, seconds):
        a = self.me()
        if a is None:
            return
        a.state = SLEEPING
        a.wake_at = self.now + max(0.0, float(seconds))
        a.sleep_mark = self.global_steps
        self.log.append((self.decisions, a.idx, "sleep", f"{seconds:.3f}"))
        self._park(a)

    def block_on(self, lock):
        a = self.me()
        a.state = BLOCKED
        a.blocked_on = lock
        self._park(a)

    # ------------------------------------------------------------ controller
    def _is_frozen(self, a):
        return any(a.idx == j and self.decisions + 1 >= i for i, j in self.freeze)

    def _enabled(self):
        out = []
        for a in self.actors:
            if self.freeze and self._is_frozen(a):
                continue
            if a.state in (NEW, RUNNABLE):
                out.append(a)
            elif a.state == BLOCKED and a.blocked_on is not None and a.blocked_on.free_for(a):
                out.append(a)
            elif a.state == SLEEPING and self.now >= a.wake_at:
                out.append(a)
        return out

    def _body(self, a):
        threading.current_thread()._vf_actor = a
        a.go.wait()
        a.go.clear()
        try:
            if self.aborting:
                raise SchedAbort()
            a.started_at = self.global_steps
            a.result = a.fn()
        except SchedAbort:
            a.exc = SchedAbort()
        except BaseException as e:  # noqa
            a.exc = e
        finally:
            a.ended_at = self.global_steps
            a.state = DONE
            self.back.set()

    def run(self):
        order = self.order or list(range(len(self.actors)))
        order = [i for i in order if i < len(self.actors)] + [i for i in range(len(self.actors)) if i not in order]
        for a in self.actors:
            a.thread = threading.Thread(target=self._body, args=(a,), name=f"actor-{a.name}", daemon=True)
            a.thread.start()
        try:
            while True:
                live = [a for a in self.actors if a.state != DONE]
                if not live:
                    break
                en = self._enabled()
                if not en:
                    sleepers = [a for a in live if a.state == SLEEPING and not (self.freeze and self._is_frozen(a))]
                    if not sleepers and self.freeze and any(self._is_frozen(a) for a in live):
                        self.freeze = []  # everybody else is done or stuck: the paused actor continues
                        continue
                    if sleepers:
                        self.now = max(self.now, min(a.wake_at for a in sleepers))
                        continue
                    raise Deadlock("no enabled actor: " + ", ".join(f"{a.name}:{a.state}" for a in live))
                self.decisions += 1
                if self.decisions > self.max_decisions:
                    raise Deadlock(f"schedule exceeded {self.max_decisions} decisions")
                choice = None
                if self.decisions in self.preempt:
                    want = self.preempt[self.decisions]
                    cand = [a for a in en if a.idx == want]
                    if cand and (self.current is None or cand[0] is not self.current):
                        choice = cand[0]
                        self.applied_preempts += 1
                if choice is None:
                    # default policy: non-preemptive; actors that are merely polling (asleep) yield to actors that can
                    # make progress, so that two waiters cannot starve the lock holder they are waiting for
                    awake = [a for a in en if a.state != SLEEPING] or en
                    if self.current is not None and self.current in awake:
                        choice = self.current
                    else:
                        choice = sorted(awake, key=lambda a: order.index(a.idx))[0]
                if choice.state == BLOCKED:
                    choice.blocked_on = None
                choice.state = RUNNABLE
                self.current = choice
                self.back.clear()
                choice.go.set()
                self.back.wait()
        except Deadlock as e:
            self.error = e
        finally:
            self._abort_all()
        return self

    def _abort_all(self):
        self.aborting = True
        for a in self.actors:
            if a.state != DONE:
                a.go.set()
        for a in self.actors:
            if a.thread is not None:
                a.thread.join(timeout=5.0)


class CoopRLock:
    """Re-entrant lock whose blocked acquirers are disabled actors instead of blocked OS threads."""

    def __init__(self, sched):
        self.sched = sched
        self.owner = None
        self.count = 0

    def free_for(self, a):
        return self.owner is None or self.owner is a

    def acquire(self, blocking=True, timeout=-1):
        a = self.sched.me() or threading.get_ident()
        while not (self.owner is None or self.owner is a or self.owner == a):
            if isinstance(a, Actor):
                self.sched.block_on(self)
            else:
                _time.sleep(0.0005)
        self.owner = a
        self.count += 1
        return True

    def release(self):
        self.count -= 1
        if self.count <= 0:
            self.owner = None
            self.count = 0

    __enter__ = lambda self: self.acquire()

    def __exit__(self, *a):
        self.release()


class VTime:
    """time-module stand-in bound to a scheduler: actor threads sleep virtually."""

    def __init__(self, sched):
        self.sched = sched
        self._t = _time

    def sleep(self, s):
        if self.sched.me() is not None:
            self.sched.sleep(s)

    def time(self):
        return self.sched.now

    def monotonic(self):
        return self.sched.now

    def __getattr__(self, n):
        return getattr(self._t, n)


@contextlib.contextmanager
def virtual_time(sched, seed=0):
    """Patch the library's notion of time/sleep/jitter for the duration of a scheduled case."""
    import datashard.file_lock as FL
    import datashard.lock_provider as LP
    import datashard.s3_consistency as SC

    vt = VTime(sched)
    saved = [(FL, "time", FL.time), (LP, "time", LP.time), (SC, "time", SC.time)]
    FL.time = vt
    LP.time = vt
    SC.time = vt
    real_sleep = _time.sleep

    def dispatch(s):
        if sched.me() is not None:
            sched.sleep(s)
        else:
            real_sleep(s)

    _time.sleep = dispatch  # Transaction.commit imports time inside the function
    state = _random.getstate()
    _random.seed(seed)
    try:
        yield vt
    finally:
        _time.sleep = real_sleep
        _random.setstate(state)
        for m, n, v in saved:
            setattr(m, n, v)


COARSE = ("storage:", "lock:", "s3:")


def coarse_filter(label, target):
    """Yield at storage-API calls, lock syscalls, atomic publishes and S3 requests (not inside temp-file writes)."""
    return label.startswith(COARSE) or label.endswith("os.replace") or label.endswith("os.remove")
