"""'Worlds': a table on the local file system or on the fake S3, with uniform clone / open /
instrument / independent-read operations, used by the fault, crash and interrupt enumerations."""
from __future__ import annotations

import contextlib
import copy
import os
import shutil

from .fakes3 import FakeS3, s3_env
from .reader import DirFS, MapFS
from .steps import Tracer, installed


class Stepper:
    """Uniform numbered-step interface over the local tracer and the fake-S3 request hook."""

    def __init__(self):
        self.n = 0
        self.events = []  # (n, phase, label, target)
        self.handler = None
        self.enabled = False

    def fire(self, phase, label, target, info=None):
        if not self.enabled:
            return
        if phase == "before":
            self.n += 1
        self.events.append((self.n, phase, label, target))
        if self.handler is not None:
            self.handler(self.n, phase, label, target, info)


class LocalWorld:
    kind = "local"

    def __init__(self, root):
        self.root = root

    def clone(self, dest):
        shutil.copytree(self.root, dest, symlinks=True)
        return LocalWorld(dest)

    def fs(self):
        return DirFS(self.root)

    @contextlib.contextmanager
    def env(self, stepper=None):
        if stepper is None:
            yield
            return
        tr = Tracer(self.root)
        tr.record = False
        tr.handler = lambda n, phase, layer, name, target, info: stepper.fire(phase, f"{layer}:{name}", target, info)
        tr.enabled = True
        with installed(tr):
            yield

    def open(self):
        import datashard

        return datashard.load_table(self.root)

    def create(self, schema):
        import datashard

        return datashard.create_table(self.root, schema)

    def location(self):
        return self.root

    def process_exit(self):
        """Emulate the death of the process for kernel-held resources: leaked flock descriptors die with it."""
        lockp = os.path.realpath(os.path.join(self.root, ".locks"))
        for fd in os.listdir("/proc/self/fd"):
            try:
                tgt = os.readlink(f"/proc/self/fd/{fd}")
            except OSError:
                continue
            if tgt.startswith(lockp + os.sep):
                # drop the kernel lock but keep the descriptor number allocated: a stale FileLock object that is
                # finalised later will close 'its' fd, which must not have been re-used by someone else meanwhile
                try:
                    import fcntl

                    fcntl.flock(int(fd), fcntl.LOCK_UN)
                except OSError:
                    pass

    def written_paths(self, events):
        out = set()
        for n, phase, label, target in events:
            if phase == "after" and label.endswith("os.replace") and (target.startswith("data/") or target.startswith("metadata/")) and "inflight" not in target:
                out.add(target)
        return out

    def exists(self, rel):
        return os.path.exists(os.path.join(self.root, rel))


class S3World:
    kind = "s3"

    def __init__(self, fake=None, table="tbl", env_prefix="env", conditional=True):
        self.fake = fake or FakeS3(page_size=50)
        self.table = table
        self.env_prefix = env_prefix
        self.conditional = conditional
        self.kind = "s3cas" if conditional else "s3plain"

    @property
    def key_prefix(self):
        return "/".join(x for x in (self.env_prefix.strip("/"), self.table.strip("/")) if x)

    def clone(self, dest=None):
        f = FakeS3(page_size=self.fake.page_size)
        f.objects = {k: dict(v) for k, v in self.fake.objects.items()}
        return S3World(f, self.table, self.env_prefix, self.conditional)

    def fs(self):
        return MapFS(self.fake.objects, self.key_prefix)

    @contextlib.contextmanager
    def env(self, stepper=None):
        with s3_env(self.fake, env_prefix=self.env_prefix, conditional=self.conditional):
            if stepper is not None:
                pre = self.key_prefix + "/"
                self.fake.hook = lambda phase, op, key, req: stepper.fire(phase, f"s3:{op}" + (":cond" if req.get("IfMatch") or req.get("IfNoneMatch") else ""),
                                                                           key[len(pre):] if key.startswith(pre) else key, req)
            try:
                yield
            finally:
                self.fake.hook = None

    def open(self):
        import datashard

        return datashard.load_table(self.table)

    def create(self, schema):
        import datashard

        return datashard.create_table(self.table, schema)

    def location(self):
        return self.table

    def process_exit(self):
        # the lock object of a dead holder lapses after its lease
        self.fake.age(300, self.key_prefix + "/.locks/")

    def written_paths(self, events):
        out = set()
        for n, phase, label, target in events:
            if phase == "after" and label.startswith("s3:put") and (target.startswith("data/") or target.startswith("metadata/")) and "inflight" not in target:
                out.add(target)
        return out

    def exists(self, rel):
        return self.fs().exists(rel)
