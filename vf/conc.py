"""Scheduled concurrent runs: build actors over a cloned world, run them under a schedule, record
pointer flips and per-actor outcomes."""
from __future__ import annotations

import contextlib
import copy

from . import clock as vclock
from .detsched import CoopRLock, Scheduler, coarse_filter, virtual_time
from .reader import HINT
from .world import Stepper


class Run:
    def __init__(self):
        self.sched = None
        self.flips = []  # (global step, actor idx, pointer content)
        self.outcomes = []  # per actor: ("ok", value) | ("raise", exc)
        self.events = []
        self.error = None


def is_flip(world_kind, phase, label, target, info):
    if phase != "after" or target != HINT:
        return False
    if world_kind == "local":
        return label.endswith("os.replace")
    return label.startswith("s3:put") and bool(info and info.get("landed"))


def run_scheduled(world, make_actors, schedule, clock_mode="real", seed=0, fine=False, record_events=False, on_event=None, max_decisions=20000, clock_start_ms=None):
    """make_actors(world) -> list of (name, fn) built inside the instrumented environment (handles are opened there).
    Returns a Run."""
    r = Run()
    sch = Scheduler(schedule, yield_filter=(lambda l, t: True) if fine else coarse_filter, max_decisions=max_decisions)
    r.sched = sch
    st = Stepper()

    def handler(n, phase, label, target, info):
        sch.step(phase, label, target, info)

    def ev(a, phase, label, target, info):
        if is_flip(world.kind, phase, label, target, info):
            content = None
            try:
                content = world.fs().get(HINT).decode().strip()
            except Exception:
                pass
            r.flips.append((sch.global_steps, a.idx, content))
        if record_events:
            r.events.append((sch.global_steps, a.idx, phase, label, target))
        if on_event is not None:
            on_event(sch, a, phase, label, target, info)

    sch.on_event = ev
    st.handler = handler
    clk = vclock.VClock("real" if clock_mode == "real" else "manual", start_ms=clock_start_ms)
    with world.env(st), virtual_time(sch, seed), vclock.installed(clk):
        actors = make_actors(world, sch, clk)
        st.enabled = True
        for name, fn in actors:
            sch.add(name, fn)
        sch.run()
        st.enabled = False
    r.error = sch.error
    for a in sch.actors:
        if a.exc is not None:
            r.outcomes.append(("raise", a.exc))
        else:
            r.outcomes.append(("ok", a.result))
    return r


def share_handle(t, sch):
    """Make one table handle usable by several scheduled actors (threads sharing one handle)."""
    t.metadata_manager._lock = CoopRLock(sch)
    return t


def depth1_schedules(n_actors, decisions, order=None, stride=1):
    order = order or list(range(n_actors))
    for i in range(1, decisions + 1, stride):
        for j in range(n_actors):
            yield {"order": order, "preempt": [[i, j]]}


@contextlib.contextmanager
def no_exclusion_lock():
    """A distributed lock that grants everyone and always reports 'held' (the statement of C08: 'even if the
    lock gives no exclusion at all').  Substituted for the S3 lock providers from the harness."""
    import datashard.lock_provider as LP

    saved = {}
    for cls in (LP.S3LockProvider, LP.S3PollingLockProvider):
        saved[cls] = (cls.acquire, cls.release, cls.is_held)

        def acquire(self):
            self.is_locked = True
            return True

        def release(self):
            self.is_locked = False

        def is_held(self):
            return True

        cls.acquire, cls.release, cls.is_held = acquire, release, is_held
    try:
        yield
    finally:
        for cls, (a, r, h) in saved.items():
            cls.acquire, cls.release, cls.is_held = a, r, h
