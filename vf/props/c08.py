"""C08 - A stale lock holder or delayed pointer write cannot lose an update on S3."""
from __future__ import annotations

import contextlib

from hypothesis import strategies as st

from ..common import Result, chash, scratch_dir
from ..conc import no_exclusion_lock, run_scheduled
from ..hyp import campaign
from ..reader import HINT
from . import c04
from .c01 import build_base, check_refinement, make_op_fn, stale_race, COARSE_MS

PROP = "C08"
LEVEL = "exploration"
RULE = ("Conditional-write S3, 2-3 committers (append, multi-append, delete_files, expire, delete_snapshot, property change) with the real S3LockProvider or "
        "with a lock that grants everyone and always reports 'held'; extra actors: lease lapse (the lock object is aged past its lease at a scheduled instant) "
        "and heartbeat renewal of a committer's lock (_renew_once); the pointer object may be missing when the committers start. The deterministic scheduler yields before every S3 request, so a parked actor is a paused "
        "committer / a conditional PUT delayed in flight (its precondition is evaluated when it lands). Exhaustive single-preemption enumeration for fixed "
        "scenarios, a 'frozen committer' family (A runs to decision i and is then STOPPED - it does not even run while the others sleep - until B has finished; every i), "
        "+ Hypothesis PCT schedules (<=4 change points) over generated ones. Oracles: (1) refinement - every acknowledged commit is present exactly "
        "once in the pointer-flip chain (C01's oracle); (2) pointer monitor - when a committer's conditional pointer PUT lands, the content it replaces is the "
        "pointer content that committer read in its validation step; (3) fence - a committer whose lock object did not carry its id at its last ownership read "
        "never lands a pointer PUT. Non-trivial: another committer's pointer PUT landed between a committer's validation read and its own PUT attempt, or a "
        "lease lapsed while a committer held the lock. distinct = (scenario, schedule).")
ASSUMPTIONS = ["the fake S3 is strongly consistent, ETag = MD5(body), conditional PUT evaluated at landing", "(3) is not checked under the grant-everyone lock"]
REQUIRED_LABELS = {"quick": ["put-between-validation-and-put", "lock:noexcl", "lock:real", "lapse"], "thorough": ["put-between-validation-and-put"]}


def run_case(case):
    out = {"violations": [], "labels": [], "nontrivial": False}
    sc = case["sc"]
    ops = list(sc["ops"])
    with scratch_dir("c08") as d:
        world = c04.make_world(d, "s3cas")
        base = build_base(world, sc["nprior"], coarse=sc.get("clock") == "coarse")
        lock_key = world.key_prefix + "/.locks/metadata.lock"
        hint_key = world.key_prefix + "/" + HINT
        if sc.get("pointer") == "lost":
            # the pointer object is gone when the committers start (they recover by listing): re-creating it is a commit
            # point like any other and must be conditional (create-if-absent)
            world.fake.objects.pop(hint_key, None)
            out["labels"].append("pointer-lost")
        state = {"hint_get": {}, "validated": {}, "holder_ok": {}, "ids": {}, "monitor": [], "others_put_since_validation": {}}

        def on_event(sch, a, phase, label, target, info):
            if phase != "after":
                return
            i = a.idx
            if label.startswith("s3:get") and target == HINT:
                state["hint_get"][i] = world.fake.objects.get(hint_key, {}).get("body")
            elif label.startswith("s3:get") and target.startswith("metadata/v"):
                state["validated"][i] = state["hint_get"].get(i)
                state["others_put_since_validation"][i] = 0
            elif label.startswith("s3:get") and target == ".locks/metadata.lock":
                o = world.fake.objects.get(lock_key)
                state["holder_ok"][i] = o is not None and o["body"].decode().split("\n")[0] == state["ids"].get(i)
            elif label.startswith("s3:put") and target.startswith("metadata/v") and target.endswith(".metadata.json") and info and info.get("landed"):
                # the metadata file is written just before the fencing read: a lock already lost HERE was lost before the commit point
                o = world.fake.objects.get(lock_key)
                state.setdefault("own_at_mdwrite", {})[i] = o is not None and o["body"].decode().split("\n")[0] == state["ids"].get(i)
            elif label.startswith("s3:put") and target == HINT and info and info.get("landed"):
                if sc["lock"] != "noexcl" and state.get("own_at_mdwrite", {}).get(i) is False and i < len(ops):
                    state.setdefault("lost_lock_commits", []).append(i)
                prev = None
                for op_, key, inf in reversed(world.fake.log):
                    if op_ == "put" and key == hint_key and inf.get("ok"):
                        prev = inf.get("prev")
                        break
                state["monitor"].append((i, prev, state["validated"].get(i), state["holder_ok"].get(i)))
                for j in state["others_put_since_validation"]:
                    if j != i:
                        state["others_put_since_validation"][j] += 1

        def make_actors(w, sch, clk):
            actors = []
            tabs = []
            for i, op in enumerate(ops):
                t = w.open()
                tabs.append(t)
                state["ids"][i] = getattr(t.metadata_manager.lock_provider, "lock_id", None)
                actors.append((f"c{i}", make_op_fn(t, op, base, i)))
            for ex in sc.get("extras", []):
                if ex["kind"] == "lapse":
                    actors.append(("lapse", lambda: w.fake.age(120, lock_key)))
                elif ex["kind"] == "renew":
                    lp = tabs[ex["of"] % len(tabs)].metadata_manager.lock_provider

                    def renew(lp=lp):
                        if getattr(lp, "is_locked", False) and hasattr(lp, "_renew_once"):
                            lp._renew_once()
                            return "renewed"
                        return "not-holding"

                    actors.append(("renew", renew))
            return actors

        all_ops = ops + [{"op": "noop"} for _ in sc.get("extras", [])]
        noexcl = sc["lock"] == "noexcl"
        with (no_exclusion_lock() if noexcl else contextlib.nullcontext()):
            run = run_scheduled(world, make_actors, case["schedule"], clock_mode="real" if sc.get("clock") != "coarse" else "manual",
                                seed=case.get("seed", 0), clock_start_ms=COARSE_MS if sc.get("clock") == "coarse" else None, on_event=on_event)
        out["labels"] += [f"lock:{sc['lock']}"] + [ex["kind"] for ex in sc.get("extras", [])]
        if run.error is not None:
            out["violations"].append((f"scheduler/{type(run.error).__name__}", str(run.error)[:200]))
            return out
        for oc, val in run.outcomes:
            if oc == "raise":
                out["labels"].append(f"raised:{type(val).__name__}")
        # (2) + (3)
        for (i, prev, validated, holder_ok) in state["monitor"]:
            if i >= len(ops):
                continue
            if validated is not None and prev is not None and prev != validated:
                out["violations"].append((f"cas-not-keyed-to-validated-version/{ops[i]['op']}",
                                          f"committer {i} ({ops[i]['op']}) landed a pointer PUT replacing {prev.decode()!r} although it validated against {validated.decode()!r}"))
            if not noexcl and holder_ok is False:
                out["violations"].append((f"fence-missed/{ops[i]['op']}", f"committer {i} landed a pointer PUT although the lock object did not carry its id at its last ownership read"))
        for i in state.get("lost_lock_commits", []):
            out["violations"].append((f"committed-after-losing-lock/{ops[i]['op']}",
                                      f"committer {i} ({ops[i]['op']}) flipped the pointer although the lock object no longer carried its id when it wrote its metadata file (before the fence)"))
            out["labels"].append("lock-lost-before-commit-point")
        # non-triviality from the request log: another committer's PUT between validation read and own PUT attempt
        if stale_race(run):
            out["labels"].append("put-between-validation-and-put")
            out["nontrivial"] = True
        if any(ex["kind"] == "lapse" for ex in sc.get("extras", [])):
            out["nontrivial"] = out["nontrivial"] or bool(run.flips)
        # (1)
        out["violations"] += check_refinement(world, base, all_ops, run, "separate")
        out["decisions"] = run.sched.decisions
    # one root cause may show through several oracles: keep the monitor's bucket first
    return out


FIXED = [
    {"lock": "noexcl", "nprior": 2, "ops": [{"op": "append"}, {"op": "append"}]},
    {"lock": "noexcl", "nprior": 2, "clock": "coarse", "ops": [{"op": "set_prop"}, {"op": "delete_snapshot", "which": 0}]},
    {"lock": "real", "nprior": 1, "ops": [{"op": "append"}, {"op": "append"}], "extras": [{"kind": "lapse"}]},
    {"lock": "real", "nprior": 1, "ops": [{"op": "append"}, {"op": "set_prop"}], "extras": [{"kind": "lapse"}, {"kind": "renew", "of": 0}]},
    {"lock": "noexcl", "nprior": 1, "ops": [{"op": "multi"}, {"op": "delete", "which": 0}]},
    {"lock": "noexcl", "nprior": 2, "pointer": "lost", "ops": [{"op": "append"}, {"op": "append"}]},
    {"lock": "real", "nprior": 1, "pointer": "lost", "ops": [{"op": "append"}, {"op": "set_prop"}], "extras": [{"kind": "lapse"}]},
]


def run_enum(task):
    res = Result()
    sc = task["sc"]
    n = len(sc["ops"]) + len(sc.get("extras", []))
    o = run_case({"kind": "sched", "sc": sc, "schedule": {"order": list(range(n))}, "seed": 1})
    D = o.get("decisions", 120)
    scheds = []
    for order in (list(range(n)), list(reversed(range(n)))):
        scheds.append({"order": order})
        for i in range(1, int(D * 1.15) + 2):
            for j in range(n):
                scheds.append({"order": order, "preempt": [[i, j]]})
    for idx, schd in enumerate(scheds):
        if idx % task["nshard"] != task["shard"]:
            continue
        case = {"kind": "sched", "sc": sc, "schedule": schd, "seed": 1}
        o = run_case(case)
        res.case(key=chash(case), nontrivial=o["nontrivial"], labels=sorted(set(o["labels"])) + ["enum-depth1"], sample=case if o["nontrivial"] and idx % 47 == 0 else None)
        for b, w in o["violations"]:
            res.violation(b, w + f" [scenario {sc}, schedule {schd}]", case)
    res.extra["depth1_enumeration_complete_for_fixed_scenarios"] = True
    return res


@st.composite
def pct_case(draw):
    n = draw(st.integers(2, 3))
    ops = [{"op": draw(st.sampled_from(["append", "append", "multi", "delete", "expire", "delete_snapshot", "set_prop"])), "which": draw(st.integers(0, 2))} for _ in range(n)]
    lock = draw(st.sampled_from(["real", "noexcl", "noexcl"]))
    extras = []
    if lock == "real":
        if draw(st.booleans()):
            extras.append({"kind": "lapse"})
        if draw(st.booleans()):
            extras.append({"kind": "renew", "of": draw(st.integers(0, n - 1))})
    m = n + len(extras)
    order = draw(st.permutations(list(range(m))))
    pre = [[draw(st.integers(1, 260)), draw(st.integers(0, m - 1))] for _ in range(draw(st.integers(0, 4)))]
    return {"kind": "sched", "sc": {"lock": lock, "nprior": draw(st.integers(1, 3)), "clock": draw(st.sampled_from(["real", "coarse"])), "ops": ops, "extras": extras,
                                    **({"pointer": "lost"} if draw(st.integers(0, 4)) == 0 else {})},
            "schedule": {"order": list(order), "preempt": sorted(pre)}, "seed": draw(st.integers(0, 3))}


def run_takeover_enum(task):
    """Structured enumeration of the 'paused holder' family: A starts, is paused at decision i, the lease lapses, B runs (and may
    take the lock over) until decision j, then A resumes and runs to the end, then B."""
    res = Result()
    sc = {"lock": "real", "nprior": 1, "ops": [{"op": task["opA"]}, {"op": task["opB"]}], "extras": [{"kind": "lapse"}]}
    # actors: 0 = A, 1 = B, 2 = lapse ; order [B, A, lapse] so that after the lapse B is the default choice
    idx = 0
    for i in range(2, 75):
        for j in range(i + 2, i + 70, 1):
            idx += 1
            if idx % task["nshard"] != task["shard"]:
                continue
            schd = {"order": [1, 0, 2], "preempt": [[1, 0], [i, 2], [j, 0]]}
            case = {"kind": "sched", "sc": sc, "schedule": schd, "seed": 1}
            o = run_case(case)
            res.case(key=chash(case), nontrivial=o["nontrivial"], labels=sorted(set(o["labels"])) + ["enum-takeover"], sample=case if idx % 499 == 0 else None)
            for b, w in o["violations"]:
                res.violation(b, w + f" [scenario {sc}, schedule {schd}]", case)
    return res


FROZEN = [
    {"lock": "noexcl", "nprior": 1, "ops": [{"op": "append"}, {"op": "append"}]},
    {"lock": "noexcl", "nprior": 1, "pointer": "lost", "ops": [{"op": "append"}, {"op": "append"}]},
    {"lock": "real", "nprior": 1, "pointer": "lost", "ops": [{"op": "append"}, {"op": "append"}], "extras": [{"kind": "lapse"}]},
    {"lock": "noexcl", "nprior": 2, "pointer": "lost", "ops": [{"op": "set_prop"}, {"op": "delete_snapshot", "which": 0}]},
]


def run_frozen_enum(task):
    """'Paused committer' family with a truly STOPPED process: A runs alone up to decision i and is then frozen (it does not
    run even while the others sleep in a retry or poll a lock); the lease lapses (if a lapse actor exists) and B runs its
    whole operation; only then A continues - a stale holder / a pointer write delayed for arbitrarily long. Every i."""
    res = Result()
    sc = task["sc"]
    n = len(sc["ops"]) + len(sc.get("extras", []))
    order = [0] + list(range(2, n)) + [1]  # A, then the extras (lapse), then B
    o = run_case({"kind": "sched", "sc": sc, "schedule": {"order": order}, "seed": 1})
    D = o.get("decisions", 150)
    for i in range(2, int(D) + 2):
        if i % task["nshard"] != task["shard"]:
            continue
        schd = {"order": order, "freeze": [[i, 0]]}
        case = {"kind": "sched", "sc": sc, "schedule": schd, "seed": 1}
        o = run_case(case)
        res.case(key=chash(case), nontrivial=o["nontrivial"], labels=sorted(set(o["labels"])) + ["enum-frozen-committer"], sample=case if i % 53 == 0 else None)
        for b, w in o["violations"]:
            res.violation(b, w + f" [scenario {sc}, schedule {schd}]", case)
    return res


def plan(tier, seed):
    tasks = []
    for sc in (FROZEN if tier == "thorough" else FROZEN[:3]):
        for s_ in range(2):
            tasks.append({"kind": "frozen", "sc": sc, "shard": s_, "nshard": 2})
    for sc in FIXED:
        for s in range(3):
            tasks.append({"kind": "enum", "sc": sc, "shard": s, "nshard": 3})
    pairs = [("append", "append")] if tier == "quick" else [("append", "append"), ("set_prop", "append"), ("append", "delete_snapshot")]
    for a, b in pairs:
        ns = 8
        for s in range(ns):
            tasks.append({"kind": "takeover", "opA": a, "opB": b, "shard": s, "nshard": ns})
    n = 150 if tier == "quick" else 3000
    for s in range(4 if tier == "quick" else 16):
        tasks.append({"kind": "pct", "n": n, "seed": seed * 1000 + s, "tier": tier})
    return tasks


def run_task(task):
    if task["kind"] == "enum":
        return run_enum(task)
    if task["kind"] == "takeover":
        return run_takeover_enum(task)
    if task["kind"] == "frozen":
        return run_frozen_enum(task)
    res = Result()
    campaign(pct_case(), run_case, task["n"], task["seed"], res, PROP, shrink=task["tier"] == "thorough")
    return res


def replay(case):
    o = run_case(case)
    return [{"bucket": b, "what": w} for b, w in o["violations"]]
