"""C15 - Table metadata stays well-formed through every history."""
from __future__ import annotations

import itertools

from hypothesis import strategies as st

from ..common import Result, chash
from ..hist import history_strategy
from ..hyp import campaign
from ._histprop import run_history

PROP = "C15"
LEVEL = "exploration"
RULE = ("(a) Hypothesis histories (3-25 steps) of append / multi-op transaction (append+delete+expire) / delete_files ('/data/x' and 'data/x') / "
        "expire (any cutoff) / delete_snapshot (any id incl. current, missing) / retention-count and previous-versions-max properties / failed commits, "
        "under real-like, coarse (equal ms) and backwards clocks; an independent invariant checker reads the metadata JSON and manifests after every step. "
        "Non-trivial: a delete/expire/delete_snapshot happens after >=3 commits; distinct = hash of the history. "
        "(b) exhaustive: every parent function on <=5 snapshot nodes (incl. cycles, dangling, -1/None) x every kept subset for the parent-repointing routine.")
ASSUMPTIONS = ["previous-versions-max values 0/negative are not generated (meaning unspecified); invalid strings must fall back to the default bound 100",
               "true ancestry = the snapshot that was current when a snapshot was committed (model), transitively"]


@st.composite
def case_strategy(draw):
    clock = draw(st.sampled_from(["real", "real", "manual", "manual_back"]))
    steps = draw(history_strategy(25, gc=False, clock_ticks={"real": "forward", "manual": "forward", "manual_back": "any"}[clock], open_txn=True))
    return {"kind": "history", "clock": clock, "steps": steps}


def check_history(case):
    mode = "real" if case["clock"] == "real" else "manual"
    vios, labels, facts = run_history(PROP, case["steps"], clock_mode=mode)
    commits = 0
    nontrivial = False
    for s in case["steps"]:
        if s["op"] in ("append", "txn", "commit_open"):
            commits += 1
        if s["op"] in ("delete_files", "expire", "delete_snapshot") and commits >= 3:
            nontrivial = True
    labels = sorted(set(labels)) + [f"clock:{case['clock']}"] + ([] if facts["monotone"] else ["timestamps-went-backwards"])
    return {"violations": vios, "labels": labels, "nontrivial": nontrivial}


def run_repoint_exhaustive(task):
    """All parent functions on n<=5 nodes x all kept subsets; oracle: nearest kept ancestor along the
    original chain, None when there is none or a cycle is hit; non-kept snapshots untouched."""
    res = Result()
    try:
        from datashard.snapshot_manager import repoint_parents_to_surviving_ancestors as repoint
        from datashard.data_structures import Snapshot
    except Exception:
        res.extra["repoint_symbol_missing"] = True
        return res
    n = task["n"]
    ids = list(range(1, n + 1))
    choices = [None, -1, 99] + ids  # None, -1 (no parent), dangling id, any node (incl. self -> cycle)
    count = 0
    for parents in itertools.product(choices, repeat=n):
        if count % task["nshard"] != task["shard"]:
            count += 1
            continue
        count += 1
        pmap = dict(zip(ids, parents))
        for mask in range(1 << n):
            kept_ids = [i for k, i in enumerate(ids) if mask >> k & 1]
            snaps = [Snapshot(snapshot_id=i, timestamp_ms=i, manifest_list="m", parent_snapshot_id=pmap[i]) for i in ids]
            kept = [s for s in snaps if s.snapshot_id in kept_ids]
            try:
                repoint(snaps, kept)
            except Exception as e:  # noqa
                res.violation("repoint/raises", f"repoint raised {type(e).__name__} for parents={pmap} kept={kept_ids}", {"kind": "repoint", "parents": list(parents), "kept": kept_ids})
                continue
            res.evaluations += 1
            nontrivial = any(pmap[i] in ids and pmap[i] not in kept_ids for i in kept_ids)
            if nontrivial:
                res.nontrivial.add(f"{parents}|{mask}")
            ks = set(kept_ids)
            for s in kept:
                p = pmap[s.snapshot_id]
                seen = set()
                while p is not None and p != -1 and p not in ks:
                    if p in seen:
                        p = None
                        break
                    seen.add(p)
                    p = pmap.get(p)
                if s.parent_snapshot_id != p:
                    res.violation("repoint/wrong-parent", f"parents={pmap} kept={kept_ids}: snapshot {s.snapshot_id} repointed to {s.parent_snapshot_id}, nearest kept ancestor is {p}",
                                  {"kind": "repoint", "parents": list(parents), "kept": kept_ids})
                    break
    if len(res.samples) < 1:
        res.samples.append({"kind": "repoint", "n": n, "parents_example": [None, 1, 2, 99, 4][:n], "kept": ids[::2]})
    res.labels[f"repoint-n{n}"] += res.evaluations
    res.extra["exhaustive_subdomain"] = True
    return res


# ---------------- object storage: the conditional-write commit path has branches of its own ----------------
@st.composite
def s3_case(draw):
    return {"kind": "s3meta", "ncommits": draw(st.integers(1, 6)), "after": draw(st.integers(1, 3)),
            "pointer": draw(st.sampled_from(["intact", "legacy_number", "missing_file", "deleted", "garbage", "digits_missing"])),
            "setprop": draw(st.booleans())}


def check_s3(case):
    """Commits on the fake S3 with conditional writes; in between the pointer object may be replaced by a dangling / legacy /
    unparseable one (the commit path then numbers and logs from the version it recovered). The independent reader then checks
    the well-formedness clauses that do not need a model: current snapshot retained, parents retained, sequence numbers
    strictly increasing and <= last, snapshot_log in commit order over retained snapshots, metadata_log within its bound,
    naming only EXISTING metadata files that were committed versions, in supersession order, never the current one."""
    import copy

    from ..hist import FIELDS
    from ..reader import HINT, ReadError, read_view
    from ..tbl import make_schema
    from ..world import S3World

    out = {"violations": [], "labels": ["s3-commit-path", f"pointer:{case['pointer']}"], "nontrivial": case["pointer"] != "intact"}
    w = S3World(conditional=True)
    committed = []

    def note():
        try:
            committed.append(w.fs().get(HINT).decode().strip())
        except Exception:
            pass

    def vio(b, what):
        out["violations"].append((f"s3/{b}", f"S3 (conditional writes), pointer {case['pointer']} after {case['ncommits']} commits: {what}"))

    with w.env():
        t = w.create(make_schema(FIELDS))
        note()
        k = 0
        for _ in range(case["ncommits"]):
            k += 1
            t.append_records([{"k": k, "s": f"r{k}"}])
            note()
        L = committed[-1]
        key = w.key_prefix + "/" + HINT
        import re as _re

        vL = int(_re.match(r"v(\d+)", L).group(1))
        payload = {"legacy_number": str(vL).encode(), "missing_file": f"v{vL}-deadbeef.metadata.json".encode(), "garbage": b"\x00garbage",
                   "digits_missing": str(vL + 7).encode()}.get(case["pointer"])
        if case["pointer"] == "deleted":
            w.fake.objects.pop(key, None)
        elif payload is not None:
            w.fake.raw_put(key, payload)
        import datashard

        try:
            t2 = datashard.load_table(w.location())
            for _ in range(case["after"]):
                k += 1
                t2.append_records([{"k": k, "s": f"r{k}"}])
                note()
            if case["setprop"]:
                mm = t2.metadata_manager
                b = mm.refresh()
                n_ = copy.deepcopy(b)
                n_.properties["p"] = "v"
                mm.commit(b, n_)
                note()
        except Exception as e:  # noqa - whether a damaged pointer is survivable is C10's subject
            out["labels"].append(f"commit-after-damage-raised:{type(e).__name__}")
            return out
        try:
            v = read_view(w.fs(), rows=False)
        except ReadError as e:
            vio("unreadable", str(e))
            return out
        md = v["raw"]
        ids = [s_["id"] for s_ in v["snapshots"]]
        if ids and md["current_snapshot_id"] not in ids:
            vio("current-not-retained", f"current_snapshot_id {md['current_snapshot_id']} not among {ids}")
        for s_ in v["snapshots"]:
            if s_["parent"] not in (None, -1) and s_["parent"] not in ids:
                vio("parent-dangling", f"snapshot {s_['id']} has parent {s_['parent']}")
        seqs = [s_["seq"] for s_ in v["snapshots"]]
        if any(b_ <= a_ for a_, b_ in zip(seqs, seqs[1:])) or any(q > md["last_sequence_number"] for q in seqs):
            vio("sequence-order", f"sequence numbers {seqs}, last {md['last_sequence_number']}")
        log_ids = [e["snapshot_id"] for e in md["snapshot_log"]]
        if any(i not in ids for i in log_ids) or [i for i in ids if i in log_ids] != log_ids:
            vio("snapshot-log", f"snapshot_log {log_ids} vs retained {ids}")
        names = [e.get("metadata-file", "") for e in md["metadata_log"]]
        hist = ["metadata/" + c for c in committed[:-1]]
        for n_ in names:
            if not w.fs().exists(n_):
                vio("metadata-log-missing", f"metadata_log names {n_}, which does not exist")
            elif n_ not in hist:
                vio("metadata-log-not-superseded", f"metadata_log names {n_}, which was never a superseded committed version")
        if len(names) > 100:
            vio("metadata-log-bound", f"{len(names)} entries")
        idx = [hist.index(n_) for n_ in names if n_ in hist]
        if idx != sorted(idx) or len(set(idx)) != len(idx):
            vio("metadata-log-order", f"{names}")
    return out


def plan(tier, seed):
    n = 400 if tier == "quick" else 4000
    tasks = [{"kind": "hist", "n": n, "seed": seed * 1000 + s, "tier": tier} for s in range(14)]
    for nn in (1, 2, 3, 4):
        tasks.append({"kind": "repoint", "n": nn, "shard": 0, "nshard": 1})
    sh = 4 if tier == "quick" else 8
    for s in range(sh):
        tasks.append({"kind": "repoint", "n": 5, "shard": s, "nshard": sh})
    tasks += [{"kind": "s3meta", "n": 40 if tier == "quick" else 500, "seed": seed * 1000 + 400 + s, "tier": tier} for s in range(4)]
    return tasks


def run_task(task):
    if task["kind"] == "repoint":
        return run_repoint_exhaustive(task)
    res = Result()
    if task["kind"] == "s3meta":
        campaign(s3_case(), check_s3, task["n"], task["seed"], res, PROP, shrink=False)
        return res
    campaign(case_strategy(), check_history, task["n"], task["seed"], res, PROP, shrink=task["tier"] == "thorough")
    return res


def replay(case):
    if case.get("kind") == "s3meta":
        o = check_s3(case)
        return [{"bucket": b, "what": w} for b, w in o["violations"]]
    if case.get("kind") == "repoint":
        from datashard.snapshot_manager import repoint_parents_to_surviving_ancestors as repoint
        from datashard.data_structures import Snapshot

        ids = list(range(1, len(case["parents"]) + 1))
        pmap = dict(zip(ids, case["parents"]))
        snaps = [Snapshot(snapshot_id=i, timestamp_ms=i, manifest_list="m", parent_snapshot_id=pmap[i]) for i in ids]
        kept = [s for s in snaps if s.snapshot_id in case["kept"]]
        repoint(snaps, kept)
        out = []
        ks = set(case["kept"])
        for s in kept:
            p = pmap[s.snapshot_id]
            seen = set()
            while p is not None and p != -1 and p not in ks:
                if p in seen:
                    p = None
                    break
                seen.add(p)
                p = pmap.get(p)
            if s.parent_snapshot_id != p:
                out.append({"bucket": "repoint/wrong-parent", "what": f"snapshot {s.snapshot_id} -> {s.parent_snapshot_id}, expected {p}"})
        return out
    _fix_steps(case["steps"])
    o = check_history(case)
    return [{"bucket": b, "what": w} for b, w in o["violations"]]


def _fix_steps(steps):
    for s in steps:
        if "cut" in s and isinstance(s["cut"], list):
            s["cut"] = tuple(s["cut"])
        if s.get("expire") and isinstance(s["expire"], list):
            s["expire"] = tuple(s["expire"])
