"""C15 - Table metadata stays well-formed through every history."""
from __future__ import annotations

import itertools

from hypothesis import strategies as st

from ..common import Result, chash
from ..hist import history_strategy
from ..hyp import campaign
from ._histprop import run_history

PROP = "C15"
LEVEL = "exploration"
RULE = ("(a) Hypothesis histories (3-25 steps) of append / multi-op transaction (append+delete+expire) / delete_files ('/data/x' and 'data/x') / "
        "expire (any cutoff) / delete_snapshot (any id incl. current, missing) / retention-count and previous-versions-max properties / failed commits, "
        "under real-like, coarse (equal ms) and backwards clocks; an independent invariant checker reads the metadata JSON and manifests after every step. "
        "Non-trivial: a delete/expire/delete_snapshot happens after >=3 commits; distinct = hash of the history. "
        "(b) exhaustive: every parent function on <=5 snapshot nodes (incl. cycles, dangling, -1/None) x every kept subset for the parent-repointing routine.")
ASSUMPTIONS = ["previous-versions-max values 0/negative are not generated (meaning unspecified); invalid strings must fall back to the default bound 100",
               "true ancestry = the snapshot that was current when a snapshot was committed (model), transitively"]


@st.composite
def case_strategy(draw):
    clock = draw(st.sampled_from(["real", "real", "manual", "manual_back"]))
    steps = draw(history_strategy(25, gc=False, clock_ticks={"real": "forward", "manual": "forward", "manual_back": "any"}[clock], open_txn=False))
    return {"kind": "history", "clock": clock, "steps": steps}


def check_history(case):
    mode = "real" if case["clock"] == "real" else "manual"
    vios, labels, facts = run_history(PROP, case["steps"], clock_mode=mode)
    commits = 0
    nontrivial = False
    for s in case["steps"]:
        if s["op"] in ("append", "txn", "commit_open"):
            commits += 1
        if s["op"] in ("delete_files", "expire", "delete_snapshot") and commits >= 3:
            nontrivial = True
    labels = sorted(set(labels)) + [f"clock:{case['clock']}"] + ([] if facts["monotone"] else ["timestamps-went-backwards"])
    return {"violations": vios, "labels": labels, "nontrivial": nontrivial}


def run_repoint_exhaustive(task):
    """All parent functions on n<=5 nodes x all kept subsets; oracle: nearest kept ancestor along the
    original chain, None when there is none or a cycle is hit; non-kept snapshots untouched."""
    res = Result()
    try:
        from datashard.snapshot_manager import repoint_parents_to_surviving_ancestors as repoint
        from datashard.data_structures import Snapshot
    except Exception:
        res.extra["repoint_symbol_missing"] = True
        return res
    n = task["n"]
    ids = list(range(1, n + 1))
    choices = [None, -1, 99] + ids  # None, -1 (no parent), dangling id, any node (incl. self -> cycle)
    count = 0
    for parents in itertools.product(choices, repeat=n):
        if count % task["nshard"] != task["shard"]:
            count += 1
            continue
        count += 1
        pmap = dict(zip(ids, parents))
        for mask in range(1 << n):
            kept_ids = [i for k, i in enumerate(ids) if mask >> k & 1]
            snaps = [Snapshot(snapshot_id=i, timestamp_ms=i, manifest_list="m", parent_snapshot_id=pmap[i]) for i in ids]
            kept = [s for s in snaps if s.snapshot_id in kept_ids]
            try:
                repoint(snaps, kept)
            except Exception as e:  # noqa
                res.violation("repoint/raises", f"repoint raised {type(e).__name__} for parents={pmap} kept={kept_ids}", {"kind": "repoint", "parents": list(parents), "kept": kept_ids})
                continue
            res.evaluations += 1
            nontrivial = any(pmap[i] in ids and pmap[i] not in kept_ids for i in kept_ids)
            if nontrivial:
                res.nontrivial.add(f"{parents}|{mask}")
            ks = set(kept_ids)
            for s in kept:
                p = pmap[s.snapshot_id]
                seen = set()
                while p is not None and p != -1 and p not in ks:
                    if p in seen:
                        p = None
                        break
                    seen.add(p)
                    p = pmap.get(p)
                if s.parent_snapshot_id != p:
                    res.violation("repoint/wrong-parent", f"parents={pmap} kept={kept_ids}: snapshot {s.snapshot_id} repointed to {s.parent_snapshot_id}, nearest kept ancestor is {p}",
                                  {"kind": "repoint", "parents": list(parents), "kept": kept_ids})
                    break
    if len(res.samples) < 1:
        res.samples.append({"kind": "repoint", "n": n, "parents_example": [None, 1, 2, 99, 4][:n], "kept": ids[::2]})
    res.labels[f"repoint-n{n}"] += res.evaluations
    res.extra["exhaustive_subdomain"] = True
    return res


def plan(tier, seed):
    n = 400 if tier == "quick" else 4000
    tasks = [{"kind": "hist", "n": n, "seed": seed * 1000 + s, "tier": tier} for s in range(14)]
    for nn in (1, 2, 3, 4):
        tasks.append({"kind": "repoint", "n": nn, "shard": 0, "nshard": 1})
    sh = 4 if tier == "quick" else 8
    for s in range(sh):
        tasks.append({"kind": "repoint", "n": 5, "shard": s, "nshard": sh})
    return tasks


def run_task(task):
    if task["kind"] == "repoint":
        return run_repoint_exhaustive(task)
    res = Result()
    campaign(case_strategy(), check_history, task["n"], task["seed"], res, PROP, shrink=task["tier"] == "thorough")
    return res


def replay(case):
    if case.get("kind") == "repoint":
        from datashard.snapshot_manager import repoint_parents_to_surviving_ancestors as repoint
        from datashard.data_structures import Snapshot

        ids = list(range(1, len(case["parents"]) + 1))
        pmap = dict(zip(ids, case["parents"]))
        snaps = [Snapshot(snapshot_id=i, timestamp_ms=i, manifest_list="m", parent_snapshot_id=pmap[i]) for i in ids]
        kept = [s for s in snaps if s.snapshot_id in case["kept"]]
        repoint(snaps, kept)
        out = []
        ks = set(case["kept"])
        for s in kept:
            p = pmap[s.snapshot_id]
            seen = set()
            while p is not None and p != -1 and p not in ks:
                if p in seen:
                    p = None
                    break
                seen.add(p)
                p = pmap.get(p)
            if s.parent_snapshot_id != p:
                out.append({"bucket": "repoint/wrong-parent", "what": f"snapshot {s.snapshot_id} -> {s.parent_snapshot_id}, expected {p}"})
        return out
    _fix_steps(case["steps"])
    o = check_history(case)
    return [{"bucket": b, "what": w} for b, w in o["violations"]]


def _fix_steps(steps):
    for s in steps:
        if "cut" in s and isinstance(s["cut"], list):
            s["cut"] = tuple(s["cut"])
        if s.get("expire") and isinstance(s["expire"], list):
            s["expire"] = tuple(s["expire"])
