"""C19 - Locks exclude, time out, and never report a lock that is not held."""
from __future__ import annotations

import os
import signal
import subprocess
import sys
import time

from hypothesis import strategies as st

from ..common import REPO_SRC, Result, chash, scratch_dir
from ..detsched import Scheduler, virtual_time
from ..fakes3 import FakeS3, s3_env
from ..hyp import campaign
from ..world import LocalWorld, S3World, Stepper

PROP = "C19"
LEVEL = "exploration"
RULE = ("Local lock: (a) 2-3 FileLock contenders (separate instances, one path) running acquire / critical section / release loops under the deterministic "
        "scheduler at syscall granularity (open, flock, close, unlink, virtual sleep), incl. a contender that holds for 1000 virtual seconds so that the "
        "others must time out; (b) real processes: 8 processes x 60 non-atomic counter increments under the lock, and a holder SIGKILLed while holding. "
        "S3 conditional-write lock: 2-3 S3LockProviders over the fake S3 with actors acquire/critical-section/release, heartbeat renewal (_renew_once), "
        "is_held probes and lease ageing by 30 s (< lease) or 120 s (> lease), scheduled before every request. Schedules: exhaustive single-preemption "
        "enumeration for fixed scenarios + Hypothesis PCT schedules (<=4 change points). Oracles: no overlapping critical sections unless a lease lapsed; "
        "is_held() true inside / false after release; from the request log: an owner-changing PUT lands only on an object older than the lease (age at "
        "landing), an unconditional PUT never changes the owner, a superseded holder's next is_held() is False and its renewal does not resurrect it; a "
        "blocked acquirer raises TimeoutError at virtual elapsed in [timeout, timeout + one poll/jitter sleep]. Non-trivial: two contenders were between "
        "'attempt' and 'release' at overlapping times. distinct = (scenario, schedule).")
ASSUMPTIONS = ["the fake S3 evaluates preconditions at landing and stamps LastModified with the real clock minus explicit ageing",
               "(b) has no schedule control: it can only fail on a real overlap / a real failure to acquire; slowness is inconclusive"]
REQUIRED_LABELS = {"quick": ["contended", "s3", "local", "aged>lease", "timeout-case", "processes"], "thorough": ["contended"]}

LEASE = 60


# ---------------------------------------------------------------------------------------------
# local FileLock under the scheduler
# ---------------------------------------------------------------------------------------------
def run_local(case):
    out = {"violations": [], "labels": ["local"], "nontrivial": False}
    sc = case["sc"]
    with scratch_dir("c19") as d:
        os.makedirs(d + "/t")
        world = LocalWorld(d + "/t")
        sch = Scheduler(case["schedule"], max_decisions=30000)
        # virtual time starts at the real clock: the library compares time.time() with (real) file modification times
        sch.now = __import__("time").time()
        st_ = Stepper()
        st_.handler = lambda n, phase, label, target, info: sch.step(phase, label, target, info)
        state = {"inside": [], "overlap": None, "attempting": set(), "contended": False, "bad_held": []}
        with world.env(st_), virtual_time(sch, case.get("seed", 0)) as vt:
            from datashard.file_lock import FileLock

            path = os.path.join(world.root, ".locks", "x.lock")
            if sc.get("lock_age"):
                # an OLD table: the lock file was created long ago (flock never rewrites it, its mtime is not a liveness signal)
                os.makedirs(os.path.dirname(path), exist_ok=True)
                with open(path, "ab"):
                    pass
                tt = __import__("time").time() - sc["lock_age"]
                os.utime(path, (tt, tt))
                out["labels"].append("old-lock-file")
            locks = [FileLock(path, timeout=sc.get("timeout", 5.0)) for _ in sc["contenders"]]

            def prog(i, spec):
                lk = locks[i]

                def f():
                    res = []
                    for r in range(spec.get("rounds", 1)):
                        t0 = sch.now
                        state["attempting"].add(i)
                        if len(state["attempting"]) > 1:
                            state["contended"] = True
                        try:
                            ok = lk.acquire()
                        except TimeoutError:
                            state["attempting"].discard(i)
                            res.append(("timeout", sch.now - t0))
                            continue
                        if ok is not True:
                            res.append(("acquire-returned", ok))
                            continue
                        if state["inside"]:
                            state["overlap"] = (list(state["inside"]), i)
                        state["inside"].append(i)
                        if not lk.is_held():
                            state["bad_held"].append((i, "is_held() False inside the critical section"))
                        vt.sleep(spec.get("hold", 0.0))
                        state["inside"].remove(i)
                        lk.release()
                        state["attempting"].discard(i)
                        if lk.is_held():
                            state["bad_held"].append((i, "is_held() True after release"))
                        res.append(("ok", sch.now - t0))
                    return res

                return f

            st_.enabled = True
            for i, spec in enumerate(sc["contenders"]):
                sch.add(f"l{i}", prog(i, spec))
            sch.run()
            st_.enabled = False
        if sch.error is not None:
            out["violations"].append((f"scheduler/{type(sch.error).__name__}", str(sch.error)[:200]))
            return out
        if state["contended"]:
            out["labels"].append("contended")
            out["nontrivial"] = True
        if state["overlap"]:
            out["violations"].append(("local/overlapping-critical-sections", f"contender {state['overlap'][1]} entered while {state['overlap'][0]} inside"))
        for i, what in state["bad_held"]:
            out["violations"].append(("local/is_held-wrong", f"contender {i}: {what}"))
        timeout = sc.get("timeout", 5.0)
        for a in sch.actors:
            if a.exc is not None:
                out["violations"].append((f"local/actor-raised/{type(a.exc).__name__}", str(a.exc)[:120]))
                continue
            for kind, el in a.result or []:
                if kind == "timeout":
                    out["labels"].append("timeout-case")
                    if not (timeout - 1e-5 <= el <= timeout + 0.01 + 0.15):
                        out["violations"].append(("local/timeout-window", f"TimeoutError after {el:.3f} virtual s, configured timeout {timeout}"))
                elif kind == "acquire-returned":
                    out["violations"].append(("local/acquire-returned-non-true", f"acquire() returned {el!r}"))
        # a contender that faces a 1000 s holder must have timed out
        if any(s.get("hold", 0) >= 1000 for s in sc["contenders"]):
            hog = [i for i, s in enumerate(sc["contenders"]) if s.get("hold", 0) >= 1000][0]
            hog_ok = any(k == "ok" for k, _ in (sch.actors[hog].result or []))
            for a in sch.actors:
                if a.idx != hog and hog_ok and a.result and all(k == "ok" for k, _ in a.result):
                    first = a.result[0][1]
                    # it either got the lock before the hog or waited out the hog - both fine; nothing to check
        out["decisions"] = sch.decisions
    return out


# ---------------------------------------------------------------------------------------------
# S3 conditional-write lock under the scheduler
# ---------------------------------------------------------------------------------------------
def run_s3(case):
    # the process's local time zone is part of the scenario: lease ages are differences of instants and must not depend on it
    import os as _os
    import time as _time

    tz = case["sc"].get("tz")
    if not tz:
        return _run_s3(case)
    old = _os.environ.get("TZ")
    _os.environ["TZ"] = tz
    _time.tzset()
    try:
        out = _run_s3(case)
        out["labels"].append("tz:east" if tz.startswith("EET") or "-" in tz else "tz:west")
        return out
    finally:
        if old is None:
            _os.environ.pop("TZ", None)
        else:
            _os.environ["TZ"] = old
        _time.tzset()


def _run_s3(case):
    out = {"violations": [], "labels": ["s3"], "nontrivial": False}
    sc = case["sc"]
    fake = FakeS3(page_size=50)
    world = S3World(fake, table="tbl", env_prefix="")
    key = "tbl/.locks/metadata.lock"
    sch = Scheduler(case["schedule"], max_decisions=30000)
    # virtual time starts at the real clock (the fake store stamps LastModified with real instants): code that compares time.time()
    # with an object's LastModified sees consistent epochs
    sch.now = __import__("time").time()
    st_ = Stepper()
    st_.handler = lambda n, phase, label, target, info: sch.step(phase, label, target, info)
    state = {"inside": [], "overlaps": [], "attempting": set(), "contended": False, "bad_held": [], "owner": None, "superseded": set(), "lapsed": False, "log_pos": 0,
             "takeovers": [], "held_calls": [], "acquiring": set(), "resurrected": [], "foreign_deletes": []}
    with world.env(st_), virtual_time(sch, case.get("seed", 0)) as vt:
        import datashard.lock_provider as LP

        timeout = sc.get("timeout", 8.0)
        provs = [LP.S3LockProvider(fake, "bkt", key, timeout=timeout, lease_seconds=LEASE) for _ in sc["contenders"]]
        ids = {p.lock_id: i for i, p in enumerate(provs)}

        def scan_log():
            """Replay newly landed requests on the lock key: owner model + takeover ages."""
            for op_, k_, inf in fake.log[state["log_pos"]:]:
                if k_ != key:
                    continue
                if op_ == "put" and inf.get("ok"):
                    new = ids.get(inf["body"].decode().split("\n")[0], "?")
                    prev = ids.get(inf["prev"].decode().split("\n")[0], "?") if inf.get("prev") is not None else None
                    if prev is not None and prev != new:
                        age = inf.get("prev_age_s")
                        state["takeovers"].append((prev, new, age, inf.get("cond")))
                        state["superseded"].add(prev)
                    if new in state["superseded"] and new not in state["acquiring"]:
                        # a holder that was taken over (or whose lock object was deleted by someone else) wrote the lock object
                        # back OUTSIDE acquire(): it never observed that it had lost the lock
                        state["resurrected"].append((new, inf.get("cond")))
                    if new in state["acquiring"]:
                        state["superseded"].discard(new)
                    state["owner"] = new
                elif op_ == "delete" and inf.get("existed"):
                    prev = ids.get(inf["prev"].decode().split("\n")[0], "?")
                    state["owner"] = None
                    state["deleted_by"] = state.get("current_actor")
                    if prev != state.get("current_actor_prov"):
                        state["superseded"].add(prev)
                        if prev != "?" and (inf.get("prev_age_s") or 0) <= LEASE:
                            # somebody removed a lock object that carried ANOTHER contender's id and whose lease had not lapsed
                            state["foreign_deletes"].append((state.get("current_actor_prov"), prev, inf.get("prev_age_s")))
            state["log_pos"] = len(fake.log)

        def on_event(a, phase, label, target, info):
            if phase == "before" and label.startswith("s3:delete") and state.get("fail_delete_for") is not None and getattr(a, "prov", None) == state["fail_delete_for"]:
                # the DELETE of this contender's release fails (and keeps failing through the retries): an orphan object with its id stays behind
                from ..fakes3 import client_error

                state["orphaned"] = True
                raise client_error("InternalError", "DeleteObject", 500)
            if phase == "before" and label.startswith("s3:get") and state.get("fail_get_for") is not None and getattr(a, "prov", None) == state["fail_get_for"]:
                # ONE transient error (503) on the read-back inside this contender's release(): ownership is unknown, nothing may be deleted on a guess
                from ..fakes3 import client_error

                state["fail_get_for"] = None
                state["readback_failed"] = True
                raise client_error("SlowDown", "GetObject", 503)
            fp = state.get("fail_put_for")
            if fp is not None and label.startswith("s3:put") and getattr(a, "prov", None) == fp[0] and ((phase == "before" and fp[1] == "lost") or (phase == "after" and fp[1] == "landed")):
                # ONE transient error (503) on this holder's lease RENEWAL: either the PUT never lands ("lost"), or it lands and only the
                # response is lost ("landed": the holder's remembered ETag is stale from now on). Neither may make it claim a lock it lost.
                from ..fakes3 import client_error

                state["fail_put_for"] = None
                state["renew_failed"] = fp[1]
                if phase == "after":
                    state["current_actor_prov"] = getattr(a, "prov", None)
                    scan_log()
                raise client_error("SlowDown", "PutObject", 503)
            if phase == "before" and label.startswith("s3:get") and state.get("fail_probe_for") is not None and getattr(a, "prov", None) == state["fail_probe_for"][0]:
                # ONE or TWO (= every attempt) transient errors on the GET of this holder's is_held() probe (the fence the commit path consults)
                from ..fakes3 import client_error

                state["fail_probe_for"][1] -= 1
                state["probe_failed"] = True
                if state["fail_probe_for"][1] <= 0:
                    state["fail_probe_for"] = None
                raise client_error("SlowDown", "GetObject", 503)
            if phase == "after":
                state["current_actor_prov"] = getattr(a, "prov", None)
                scan_log()

        sch.on_event = on_event

        def contender(i, spec):
            p = provs[i]

            def f():
                last = None
                for rnd in range(spec.get("rounds", 1)):
                    last = one_round(rnd)
                    if last[0] != "ok":
                        break
                return last

            def one_round(rnd):
                t0 = sch.now
                state["attempting"].add(i)
                if len(state["attempting"]) > 1:
                    state["contended"] = True
                state["acquiring"].add(i)
                log_mark = len(fake.log)
                try:
                    ok = p.acquire()
                except TimeoutError:
                    state["attempting"].discard(i)
                    state["acquiring"].discard(i)
                    return ("timeout", sch.now - t0)
                finally:
                    scan_log()
                state["acquiring"].discard(i)
                if ok is not True:
                    return ("acquire-returned", ok)
                scan_log()
                # a lock is ACQUIRED by a conditional write of one's own: success without any landed PUT of this contender during
                # this acquire() means a lease was adopted that nobody refreshed (and that others may already be taking over)
                if not any(op_ == "put" and k_ == key and inf.get("ok") and inf["body"].decode().split("\n")[0] == p.lock_id for op_, k_, inf in fake.log[log_mark:]):
                    state["bad_held"].append((i, "acquire() returned True although this contender landed no write on the lock object during the call"))
                if [j for j in state["inside"] if j not in state["superseded"]]:
                    # (holders already superseded after a lapsed lease do not count: they will notice at their next is_held())
                    # how did i win? find its last landed PUT on the lock object
                    win = None
                    for op_, k_, inf in reversed(fake.log):
                        if k_ == key and op_ == "put" and inf.get("ok") and inf["body"].decode().split("\n")[0] == p.lock_id:
                            win = inf
                            break
                    legit = win is not None and win.get("prev") is not None and (win.get("prev_age_s") or 0) > LEASE
                    state["overlaps"].append((list(state["inside"]), i, legit, None if win is None else (win.get("cond"), win.get("prev_age_s"))))
                state["inside"].append(i)
                h = p.is_held()
                scan_log()
                if not h and i not in state["superseded"] and state["owner"] == i:
                    state["bad_held"].append((i, "is_held() False right after acquire while the lock object carries its id"))
                vt.sleep(spec.get("hold", 0.0))
                if spec.get("renew"):
                    if spec.get("fail_renew"):
                        state["fail_put_for"] = (i, spec["fail_renew"])
                    try:
                        p._renew_once()
                    finally:
                        state["fail_put_for"] = None
                    scan_log()
                if spec.get("fail_renew") or spec.get("fail_probe"):
                    # the fence after a troubled renewal / with a troubled read: a superseded holder must still answer False
                    if spec.get("fail_probe"):
                        state["fail_probe_for"] = [i, int(spec["fail_probe"])]
                        state["probe_nfail"] = int(spec["fail_probe"])
                    sup = i in state["superseded"]
                    try:
                        h2 = p.is_held()
                    finally:
                        state["fail_probe_for"] = None
                    scan_log()
                    state["held_calls"].append((i, h2, sup))
                state["inside"].remove(i)
                if spec.get("fail_release") and rnd == 0:
                    state["fail_delete_for"] = i
                if spec.get("fail_readback") and rnd == 0:
                    state["fail_get_for"] = i
                try:
                    p.release()
                except Exception:
                    state["release_raised"] = True
                finally:
                    state["fail_delete_for"] = None
                    state["fail_get_for"] = None
                state["attempting"].discard(i)
                if p.is_held() and not spec.get("fail_release"):
                    state["bad_held"].append((i, "is_held() True after release"))
                return ("ok", sch.now - t0)

            return f

        st_.enabled = True
        for i, spec in enumerate(sc["contenders"]):
            a = sch.add(f"s{i}", contender(i, spec))
            a.prov = i
        for ex in sc.get("extras", []):
            if ex["kind"] == "age":
                def age(sec=ex["seconds"]):
                    fake.age(sec, key)
                    if sec > LEASE:
                        state["lapsed"] = True
                    return "aged"

                sch.add("age", age)
            elif ex["kind"] == "renew":
                def rn(i=ex["of"] % len(provs)):
                    p = provs[i]
                    if p.is_locked:
                        p._renew_once()
                        scan_log()
                        return "renewed"
                    return "idle"

                a = sch.add("renew", rn)
                a.prov = ex["of"] % len(provs)
            elif ex["kind"] == "probe":
                def pr(i=ex["of"] % len(provs)):
                    p = provs[i]
                    sup = i in state["superseded"]
                    h = p.is_held()
                    scan_log()
                    state["held_calls"].append((i, h, sup))
                    return h

                a = sch.add("probe", pr)
                a.prov = ex["of"] % len(provs)
        sch.run()
        st_.enabled = False
    if sch.error is not None:
        out["violations"].append((f"scheduler/{type(sch.error).__name__}", str(sch.error)[:200]))
        return out
    if state["contended"]:
        out["labels"].append("contended")
        out["nontrivial"] = True
    if any(ex["kind"] == "age" and ex["seconds"] > LEASE for ex in sc.get("extras", [])):
        out["labels"].append("aged>lease")
    for inside, i, legit, how in state["overlaps"]:
        if not legit:
            out["violations"].append(("s3/overlapping-holders-without-lapse", f"contender {i} acquired (winning PUT: cond/age {how}) while {inside} were inside their critical sections and the lock object it replaced was not older than the lease"))
    for prev, new, age, cond in state["takeovers"]:
        if cond is None:
            out["violations"].append(("s3/unconditional-write-changed-owner", f"an unconditional PUT replaced owner {prev} by {new}"))
        elif age is not None and age <= LEASE:
            out["violations"].append(("s3/takeover-of-live-lock", f"contender {new} took the lock over from {prev} although the object was only {age:.0f}s old at landing (lease {LEASE}s)"))
    for by, prev, age in state["foreign_deletes"]:
        out["violations"].append(("s3/live-lock-of-another-holder-deleted", f"contender {by} deleted the lock object while it carried contender {prev}'s id and was {age:.0f}s old (lease {LEASE}s)"))
    if state.get("readback_failed"):
        out["labels"].append("release-readback-failed")
    if state.get("renew_failed"):
        out["labels"].append("renew-put-failed:" + state["renew_failed"])
    if state.get("probe_failed"):
        out["labels"].append("probe-get-failed:%d" % state.get("probe_nfail", 1))
    for i, what in state["bad_held"]:
        out["violations"].append(("s3/is_held-wrong", f"contender {i}: {what}"))
    for i, cond in state["resurrected"]:
        out["violations"].append(("s3/superseded-holder-resurrected-its-lock", f"contender {i} had been superseded (taken over, or its lock object deleted by another party) and wrote the lock object back outside acquire() (condition {cond}): it goes on as a holder without ever observing the loss"))
    for i, h, sup in state["held_calls"]:
        if sup and h:
            out["violations"].append(("s3/superseded-holder-reports-held", f"contender {i} was superseded (takeover / deletion by another party) but is_held() returned True"))
    timeout = sc.get("timeout", 8.0)
    for a in sch.actors:
        if a.exc is not None:
            out["violations"].append((f"s3/actor-raised/{type(a.exc).__name__}", str(a.exc)[:140]))
        elif isinstance(a.result, tuple) and a.result[0] == "timeout":
            out["labels"].append("timeout-case")
            if not (timeout - 1e-6 <= a.result[1] <= timeout + 0.9 + 0.2 + 0.3):
                out["violations"].append(("s3/timeout-window", f"TimeoutError after {a.result[1]:.2f} virtual s, timeout {timeout}"))
        elif isinstance(a.result, tuple) and a.result[0] == "acquire-returned":
            out["violations"].append(("s3/acquire-returned-non-true", repr(a.result[1])))
    out["decisions"] = sch.decisions
    return out


def run_case(case):
    return run_local(case) if case["sc"]["kind"] == "local" else run_s3(case)


# ---------------------------------------------------------------------------------------------
# real processes
# ---------------------------------------------------------------------------------------------
CHILD = r"""
import sys, os, time
sys.path.insert(0, sys.argv[1])
from datashard.file_lock import FileLock
lock = FileLock(sys.argv[2], timeout=60.0)
counter = sys.argv[3]
for _ in range(int(sys.argv[4])):
    lock.acquire()
    try:
        with open(counter) as f:
            n = int(f.read() or 0)
        with open(counter, "w") as f:
            f.write(str(n + 1))
    finally:
        lock.release()
"""
HOLDER = r"""
import sys, os, time
sys.path.insert(0, sys.argv[1])
from datashard.file_lock import FileLock
lock = FileLock(sys.argv[2], timeout=10.0)
lock.acquire()
print("HELD", flush=True)
time.sleep(120)
"""


FORKER = r"""
import sys, os, time, signal
sys.path.insert(0, sys.argv[1])
from datashard.file_lock import FileLock
lockp, counter, nchild, reps = sys.argv[2], sys.argv[3], int(sys.argv[4]), int(sys.argv[5])
lock = FileLock(lockp, timeout=60.0)
lock.acquire(); lock.release()            # the handle has been used before the fork (as a long-lived Table's lock would be)
def work():
    for _ in range(reps):
        lock.acquire()
        try:
            with open(counter) as f:
                n = int(f.read() or 0)
            with open(counter, "w") as f:
                f.write(str(n + 1))
        finally:
            lock.release()
kids = []
for _ in range(nchild):
    pid = os.fork()
    if pid == 0:
        work(); os._exit(0)
    kids.append(pid)
work()
bad = 0
for pid in kids:
    _, st = os.waitpid(pid, 0)
    bad += st != 0
# a forked holder is killed while holding: the parent's (inherited-history) handle must still be able to acquire
r, w = os.pipe()
pid = os.fork()
if pid == 0:
    lock.acquire(); os.write(w, b"H"); time.sleep(60); os._exit(0)
os.read(r, 1)
os.kill(pid, signal.SIGKILL); os.waitpid(pid, 0)
lock.timeout = 5.0
try:
    lock.acquire(); lock.release(); print("AFTERKILL ok")
except TimeoutError:
    print("AFTERKILL timeout")
print("CHILDFAIL", bad)
"""


def run_forked(task):
    """Processes created by fork() inherit the lock handle of their parent (a long-lived handle used before the fork)."""
    res = Result()
    with scratch_dir("c19f") as d:
        lockp, counter = d + "/l.lock", d + "/counter"
        open(counter, "w").write("0")
        nchild, reps = task["nchild"], task["reps"]
        p = subprocess.run([sys.executable, "-c", FORKER, REPO_SRC, lockp, counter, str(nchild), str(reps)], capture_output=True, text=True, timeout=600)
        total = int(open(counter).read() or 0)
        case = {"kind": "forked", "nchild": nchild, "reps": reps}
        res.case(key=f"forked|{nchild}|{reps}", nontrivial=True, labels=["processes", "forked"], sample=case)
        res.case(key="forked|sigkill", nontrivial=True, labels=["processes", "forked", "sigkill"])
        if p.returncode != 0 or "CHILDFAIL 0" not in p.stdout:
            res.violation("processes/forked-child-failed", f"rc={p.returncode} out={p.stdout[-200:]} err={p.stderr[-200:]}", case)
        elif total != (nchild + 1) * reps:
            res.violation("processes/forked-lost-increment", f"parent + {nchild} forked children x {reps} increments under an inherited lock handle gave {total}, expected {(nchild + 1) * reps}", case)
        if "AFTERKILL timeout" in p.stdout:
            res.violation("processes/forked-dead-holder-keeps-lock", "a forked holder was SIGKILLed while holding; the parent's handle could not acquire", case)
    return res


def run_processes(task):
    res = Result()
    with scratch_dir("c19p") as d:
        lockp, counter = d + "/l.lock", d + "/counter"
        open(counter, "w").write("0")
        nproc, reps = task["nproc"], task["reps"]
        t0 = time.time()
        procs = [subprocess.Popen([sys.executable, "-c", CHILD, REPO_SRC, lockp, counter, str(reps)]) for _ in range(nproc)]
        rcs = [p.wait(timeout=300) for p in procs]
        total = int(open(counter).read() or 0)
        case = {"kind": "processes", "nproc": nproc, "reps": reps}
        res.case(key=f"procs|{nproc}|{reps}", nontrivial=True, labels=["processes"], sample=case)
        if any(rcs):
            res.violation("processes/child-failed", f"child exit codes {rcs}", case)
        elif total != nproc * reps:
            res.violation("processes/lost-increment", f"{nproc} processes x {reps} increments under the lock gave {total}, expected {nproc * reps}", case)
        res.extra["process_stress_seconds"] = round(time.time() - t0, 2)
        # holder killed while holding
        h = subprocess.Popen([sys.executable, "-c", HOLDER, REPO_SRC, lockp], stdout=subprocess.PIPE, text=True)
        line = h.stdout.readline()
        case2 = {"kind": "processes", "sigkill": True}
        res.case(key="procs|sigkill", nontrivial=True, labels=["processes", "sigkill"], sample=case2)
        if "HELD" not in line:
            res.inconclusive.append("holder child did not acquire")
        else:
            os.kill(h.pid, signal.SIGKILL)
            h.wait()
            sys.path.insert(0, REPO_SRC)
            from datashard.file_lock import FileLock

            lk = FileLock(lockp, timeout=5.0)
            t1 = time.time()
            try:
                lk.acquire()
                lk.release()
                if time.time() - t1 > 4.0:
                    res.inconclusive.append("acquire after SIGKILL was slow")
            except TimeoutError:
                res.violation("processes/dead-holder-keeps-lock", "a holder was SIGKILLed while holding; the next contender timed out", case2)
    return res


# ---------------------------------------------------------------------------------------------
FIXED = [
    {"kind": "local", "timeout": 5.0, "contenders": [{"rounds": 2}, {"rounds": 2}]},
    {"kind": "local", "timeout": 5.0, "contenders": [{"rounds": 1, "hold": 0.02}, {"rounds": 2}, {"rounds": 1}]},
    {"kind": "local", "timeout": 3.0, "contenders": [{"rounds": 1, "hold": 1000.0}, {"rounds": 1}]},
    {"kind": "local", "timeout": 3.0, "lock_age": 86400, "contenders": [{"rounds": 1, "hold": 1000.0}, {"rounds": 1}]},
    {"kind": "local", "timeout": 5.0, "lock_age": 86400, "contenders": [{"rounds": 2, "hold": 0.02}, {"rounds": 2}]},
    {"kind": "s3", "timeout": 8.0, "contenders": [{}, {}]},
    {"kind": "s3", "timeout": 8.0, "contenders": [{"renew": True}, {}], "extras": [{"kind": "age", "seconds": 120}]},
    {"kind": "s3", "timeout": 8.0, "contenders": [{"hold": 0.5}, {}], "extras": [{"kind": "age", "seconds": 120}, {"kind": "renew", "of": 0}, {"kind": "probe", "of": 0}]},
    {"kind": "s3", "timeout": 4.0, "contenders": [{"hold": 1000.0}, {}], "extras": [{"kind": "age", "seconds": 30}]},
    {"kind": "s3", "timeout": 8.0, "contenders": [{"rounds": 2, "fail_release": True}, {}], "extras": [{"kind": "age", "seconds": 120}]},
    {"kind": "s3", "timeout": 8.0, "contenders": [{"hold": 0.5, "fail_readback": True}, {"hold": 0.5}], "extras": [{"kind": "age", "seconds": 120}]},
    {"kind": "s3", "timeout": 8.0, "contenders": [{"hold": 0.5, "fail_readback": True}, {"hold": 0.5}, {}], "extras": [{"kind": "age", "seconds": 120}]},
    # the holder is taken over after a lapse and the new holder RELEASES (the lock object is gone): the old holder, still inside its
    # critical section, must not see itself as holding (probe = is_held() as the commit path calls it before the commit point)
    {"kind": "s3", "timeout": 8.0, "all_orders": True, "contenders": [{"hold": 0.5}, {}], "extras": [{"kind": "age", "seconds": 120}, {"kind": "probe", "of": 0}]},
    {"kind": "s3", "timeout": 4.0, "tz": "EET-2", "contenders": [{"hold": 1000.0}, {}], "extras": [{"kind": "age", "seconds": 30}]},
    {"kind": "s3", "timeout": 8.0, "tz": "PST8", "contenders": [{"hold": 0.5}, {}], "extras": [{"kind": "age", "seconds": 120}]},
    # a renewal whose PUT fails (never lands / lands but the response is lost) and a fence probe whose GET fails once, around a lease lapse
    {"kind": "s3", "timeout": 8.0, "contenders": [{"hold": 0.5, "renew": True, "fail_renew": "lost"}, {}], "extras": [{"kind": "age", "seconds": 120}]},
    {"kind": "s3", "timeout": 8.0, "contenders": [{"hold": 0.5, "renew": True, "fail_renew": "landed"}, {}], "extras": [{"kind": "age", "seconds": 120}, {"kind": "renew", "of": 0}]},
    {"kind": "s3", "timeout": 8.0, "contenders": [{"hold": 0.5, "fail_probe": 1}, {}], "extras": [{"kind": "age", "seconds": 120}]},
    {"kind": "s3", "timeout": 8.0, "contenders": [{"hold": 0.5, "fail_probe": 2}, {}], "extras": [{"kind": "age", "seconds": 120}]},
    # the same provider holds the lock in two successive tenures while a contender that saw the FIRST one expired is still on its way
    {"kind": "s3", "timeout": 8.0, "contenders": [{"rounds": 2}, {}], "extras": [{"kind": "age", "seconds": 120}]},
]


def run_enum(task):
    res = Result()
    sc = task["sc"]
    n = len(sc["contenders"]) + len(sc.get("extras", []))
    o = run_case({"kind": "sched", "sc": sc, "schedule": {"order": list(range(n))}, "seed": 1})
    D = min(o.get("decisions", 60), 400)
    scheds = []
    import itertools as _it

    orders = [list(o_) for o_ in _it.permutations(range(n))] if sc.get("all_orders") else [list(range(n)), list(reversed(range(n)))]
    for order in orders:
        scheds.append({"order": order})
        for i in range(1, int(D * 1.1) + 2):
            for j in range(n):
                scheds.append({"order": order, "preempt": [[i, j]]})
    for idx, schd in enumerate(scheds):
        if idx % task["nshard"] != task["shard"]:
            continue
        case = {"kind": "sched", "sc": sc, "schedule": schd, "seed": 1}
        o = run_case(case)
        res.case(key=chash(case), nontrivial=o["nontrivial"], labels=sorted(set(o["labels"])) + ["enum-depth1"], sample=case if o["nontrivial"] and idx % 37 == 0 else None)
        for b, w in o["violations"]:
            res.violation(b, w + f" [scenario {sc}, schedule {schd}]", case)
    res.extra["depth1_enumeration_complete_for_fixed_scenarios"] = True
    return res


def run_depth3(task):
    """Exhaustive enumeration of ALL schedules with <=3 preemptions for a tiny S3 lock scenario (holder that renews, one contender, one lease lapse)."""
    import itertools

    res = Result()
    sc = task["sc"]
    n = len(sc["contenders"]) + len(sc.get("extras", []))
    D = task["D"]
    idx = 0
    for order in itertools.permutations(range(n)):
        points = [(i, j) for i in range(1, D + 1) for j in range(n)]
        for k in (1, 2, 3):
            for combo in itertools.combinations(points, k):
                if len({c[0] for c in combo}) != k:
                    continue
                idx += 1
                if idx % task["nshard"] != task["shard"]:
                    continue
                schd = {"order": list(order), "preempt": [list(c) for c in combo]}
                case = {"kind": "sched", "sc": sc, "schedule": schd, "seed": 1}
                o = run_case(case)
                res.case(key=chash(case), nontrivial=o["nontrivial"], labels=sorted(set(o["labels"])) + ["enum-depth3"], sample=case if idx % 9973 == 0 else None)
                for b, w in o["violations"]:
                    res.violation(b, w + f" [scenario {sc}, schedule {schd}]", case)
    res.extra["depth3_enumeration_complete_for_tiny_s3_scenario"] = True
    return res


@st.composite
def pct_case(draw):
    kind = draw(st.sampled_from(["local", "s3", "s3"]))
    n = draw(st.integers(2, 3))
    if kind == "local":
        cont = [{"rounds": draw(st.integers(1, 2)), "hold": draw(st.sampled_from([0.0, 0.02, 0.0, 1000.0]))} for _ in range(n)]
        extras = []
        lock_age = draw(st.sampled_from([0, 0, 400, 86400]))
    else:
        cont = [{"hold": draw(st.sampled_from([0.0, 0.5])), "renew": draw(st.booleans()), "rounds": draw(st.sampled_from([1, 1, 2])),
                 "fail_release": draw(st.integers(0, 3)) == 0, "fail_readback": draw(st.integers(0, 3)) == 0,
                 "fail_renew": draw(st.sampled_from([None, None, None, "lost", "landed"])), "fail_probe": draw(st.sampled_from([0, 0, 0, 1, 2]))} for _ in range(n)]
        extras = []
        for _ in range(draw(st.integers(0, 3))):
            k = draw(st.sampled_from(["age", "renew", "probe"]))
            extras.append({"kind": k, "seconds": draw(st.sampled_from([30, 120])), "of": draw(st.integers(0, n - 1))})
    m = n + len(extras)
    order = draw(st.permutations(list(range(m))))
    pre = [[draw(st.integers(1, 120)), draw(st.integers(0, m - 1))] for _ in range(draw(st.integers(0, 4)))]
    return {"kind": "sched", "sc": {"kind": kind, "timeout": 8.0, "contenders": cont, "extras": extras, **({"lock_age": lock_age} if kind == "local" and lock_age else {}), **({"tz": draw(st.sampled_from(["EET-2", "PST8", "IST-5:30", "NZST-12"]))} if kind == "s3" and draw(st.integers(0, 2)) == 0 else {})}, "schedule": {"order": list(order), "preempt": sorted(pre)},
            "seed": draw(st.integers(0, 3))}


def plan(tier, seed):
    tasks = []
    for sc in FIXED:
        for s in range(2):
            tasks.append({"kind": "enum", "sc": sc, "shard": s, "nshard": 2})
    n = 200 if tier == "quick" else 4000
    for s in range(4 if tier == "quick" else 14):
        tasks.append({"kind": "pct", "n": n, "seed": seed * 1000 + s, "tier": tier})
    tasks.append({"kind": "procs", "nproc": 8, "reps": 60 if tier == "quick" else 400})
    tasks.append({"kind": "forked", "nchild": 5, "reps": 60 if tier == "quick" else 300})
    tiny = {"kind": "s3", "timeout": 8.0, "contenders": [{"renew": True}, {}], "extras": [{"kind": "age", "seconds": 120}]}
    ns = 12
    for s in range(ns):
        tasks.append({"kind": "depth3", "sc": tiny, "D": 14 if tier == "quick" else 18, "shard": s, "nshard": ns})
    # two successive tenures of ONE provider, a lease lapse, and a contender that may have seen the first tenure expire
    tiny2 = {"kind": "s3", "timeout": 8.0, "contenders": [{"rounds": 2, "hold": 0.03}, {}], "extras": [{"kind": "age", "seconds": 120}]}
    for s in range(ns):
        tasks.append({"kind": "depth3", "sc": tiny2, "D": 12 if tier == "quick" else 20, "shard": s, "nshard": ns})
    return tasks


def run_task(task):
    if task["kind"] == "enum":
        return run_enum(task)
    if task["kind"] == "procs":
        return run_processes(task)
    if task["kind"] == "depth3":
        return run_depth3(task)
    if task["kind"] == "forked":
        return run_forked(task)
    res = Result()
    campaign(pct_case(), run_case, task["n"], task["seed"], res, PROP, shrink=task["tier"] == "thorough")
    return res


def replay(case):
    if case.get("kind") == "forked":
        r = run_forked({"nchild": case.get("nchild", 5), "reps": case.get("reps", 60)})
        return [{"bucket": v["bucket"], "what": v["what"]} for v in r.violations]
    if case.get("kind") == "processes":
        r = run_processes({"nproc": case.get("nproc", 8), "reps": case.get("reps", 60)})
        return [{"bucket": v["bucket"], "what": v["what"]} for v in r.violations]
    o = run_case(case)
    return [{"bucket": b, "what": w} for b, w in o["violations"]]
