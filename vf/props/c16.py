"""C16 - Commits are durable: the pointer never outruns the data it references.

The os-level trace of whole generated histories is replayed on a small model file system
(per inode: volatile / durable content version; per directory: volatile / durable entries)."""
from __future__ import annotations

import os

from hypothesis import strategies as st

from ..common import Result, scratch_dir
from ..hist import Engine, history_strategy
from ..hyp import campaign
from ..reader import DirFS, HINT, ReadError, read_view, reachable_files
from ..steps import Tracer, installed
from . import c04
from .c15 import _fix_steps

PROP = "C16"
LEVEL = "fault_enumeration"
RULE = ("Hypothesis histories (create + 3-12 operations: append, multi-op transaction, delete_files, expire, delete_snapshot, property change, failed commit) on "
        "the local backend, traced at os level from table creation on (mkstemp / NamedTemporaryFile / native parquet write / write / fsync / close / replace / "
        "remove / open / makedirs). The trace is replayed on a model file system and the durability invariant is evaluated at EVERY prefix: for the durable "
        "pointer and every pointer rename that may already be on disk, each file reachable from the version it names (independent reader) must have durable "
        "content (fsynced after its last write) and a durable directory entry under its final name (directory fsynced after the rename), and the pointer's own "
        "content must be flushed before its rename. Non-trivial prefix: it ends between the first write of a file of a commit and that commit's pointer flip. "
        "distinct = (operation kind, normalised step label). Shared handle: two or three committers (append / multi-append transaction) run as threads on ONE "
        "Table object, followed by one more commit through it; the deterministic scheduler decides at every traced call (exhaustive single preemption for "
        "append x append, plus every 'A interrupted at i, B runs 1-8 steps, A finishes, then B' double preemption; Hypothesis schedules with 1-3 preemptions otherwise); same trace model and invariant at every flip.")
ASSUMPTIONS = ["POSIX power-loss model: content is durable only after fsync of the inode, a name only after fsync of its directory; fsync through a fresh "
               "read-only descriptor of the same inode is equivalent (Linux)", "durability of newly created directories' own entries is recorded as a diagnostic only",
               "natively written parquet bytes are modelled as one volatile write completed at ParquetWriter.close"]
REQUIRED_LABELS = {"quick": ["pointer-flip", "data-file-in-commit"], "thorough": ["pointer-flip"]}


class ModelFS:
    def __init__(self):
        self.inodes = {}  # id -> dict(v=volatile version, d=durable version, kind)
        self.vol = {}  # path -> inode id  (volatile names)
        self.dur = {}  # path -> inode id  (durable names)
        self.fds = {}  # fd -> ("file"|"dir", inode id or dir path)
        self.next = 1
        self.content = {}  # inode -> last bytes written through os.write (pointer files)

    def new_inode(self, path):
        i = self.next
        self.next += 1
        self.inodes[i] = {"v": 0, "d": 0}
        self.vol[path] = i
        return i

    def sync_dir(self, d):
        d = d.rstrip("/") or "."
        pre = "" if d == "." else d + "/"
        for p in [p for p in self.dur if os.path.dirname(p) == ("" if d == "." else d)]:
            if p not in self.vol:
                del self.dur[p]
        for p, i in self.vol.items():
            if os.path.dirname(p) == ("" if d == "." else d):
                self.dur[p] = i

    def durable(self, path):
        i = self.dur.get(path)
        if i is None or self.vol.get(path) != i:
            return False, "no durable directory entry"
        ino = self.inodes[i]
        if ino["d"] != ino["v"]:
            return False, "content not flushed after its last write"
        return True, ""


def replay_trace(events, root, res_labels, preexisting=()):
    """Yields per-event model updates; returns list of (event index, kind, detail) and the pointer-flip records.
    `preexisting`: files that existed (and are taken as durable) before the trace began."""
    m = ModelFS()
    for p0 in preexisting:
        i0 = m.new_inode(p0)
        m.dur[p0] = i0
    flips = []  # (event idx, pointer content bytes, pointer inode)
    pend_mkstemp = {}
    diag_new_dirs = 0
    for idx, (n, phase, layer, name, target, info) in enumerate(events):
        if phase != "after":
            continue
        try:
            if name == "tempfile.mkstemp":
                i = m.new_inode(target)
                m.fds[("mk", target)] = i
            elif name == "tempfile.NamedTemporaryFile":
                m.new_inode(target)
            elif name in ("ParquetWriter.open", "ParquetWriter.close"):
                i = m.vol.get(target)
                if i is not None:
                    m.inodes[i]["v"] += 1
            elif name in ("os.write", "file.flush"):
                i = m.vol.get(target)
                if i is not None:
                    m.inodes[i]["v"] += 1
                    m.content[i] = info["args"][1]
            elif name == "os.open":
                fd = info["result"]
                if target in m.vol:
                    m.fds[fd] = ("file", m.vol[target])
                else:
                    m.fds[fd] = ("dir", target)
            elif name in ("os.fsync", "os.fsync.failed"):
                fd = info["args"][0]
                ent = m.fds.get(fd)
                ino = None
                if ent is None:
                    # fd from mkstemp: resolve by path
                    i = m.vol.get(target)
                    ino = m.inodes[i] if i is not None else None
                elif ent[0] == "file":
                    ino = m.inodes[ent[1]]
                if name == "os.fsync.failed":
                    # a failed fsync reports the write-back error ONCE and leaves the pages clean: this content version is lost for
                    # good - a later fsync that succeeds (e.g. a retry) does not bring it back, only a rewrite does
                    if ino is not None:
                        ino["lost"] = ino["v"]
                elif ino is not None:
                    if ino.get("lost") != ino["v"]:
                        ino["d"] = ino["v"]
                elif ent is not None:
                    m.sync_dir(ent[1])
            elif name == "os.close":
                m.fds.pop(info["args"][0], None)
            elif name in ("os.replace", "os.rename"):
                src = tracer_rel(info["args"][0], root)
                i = m.vol.pop(src, None)
                if i is not None:
                    m.vol[target] = i
                    if target == HINT:
                        flips.append((idx, info.get("pointer_content") or m.content.get(i, b""), i, dict(m.inodes[i])))
            elif name in ("os.remove", "os.unlink"):
                m.vol.pop(target, None)
            elif name == "os.makedirs":
                diag_new_dirs += 1
        except Exception:
            raise
        yield idx, m, flips
    res_labels["diag:makedirs-calls"] += diag_new_dirs


def tracer_rel(p, root):
    p = os.path.normpath(p if os.path.isabs(p) else os.path.join(os.getcwd(), p))
    return p[len(root) + 1:] if p.startswith(root + os.sep) else p


@st.composite
def case_strategy(draw):
    steps = draw(history_strategy(12, gc=False, clock_ticks="none", props_ops=True, open_txn=False))
    # pre-built files handed in by the caller are written by the CALLER (here: the harness, untraced): their durability is not the
    # library's to establish, so that operation is replaced by an ordinary append in this check
    steps = [({"op": "append", "n": 2} if s_["op"] == "append_twins" else s_) for s_ in steps]
    pre = [{"op": "append", "n": 1}]
    if draw(st.integers(0, 3)) == 0:
        # a short metadata log: superseded metadata files are removed soon after (whatever an older pointer names goes away quickly)
        from ..hist import PREVMAX

        pre = [{"op": "set_prop", "key": PREVMAX, "value": draw(st.sampled_from(["1", "2"]))}] + pre
    if draw(st.integers(0, 2)) == 0:
        # collections in between and at the end (grace 0): files only older versions name are REMOVED while the history goes on
        steps = [x for s_ in steps for x in ([s_, {"op": "gc", "grace_ms": 0}] if draw(st.integers(0, 3)) == 0 else [s_])]
        steps += draw(st.sampled_from([[{"op": "expire", "cut": ("future", 0)}], [{"op": "delete_files", "pick": [0], "slash": False, "ghost": False}], []])) + [{"op": "gc", "grace_ms": 0}]
    return {"kind": "trace", "steps": pre + steps}


def _flip_info(root, info, content):
    """What the pointer names at the moment of its rename, read from the real tree while everything is still there."""
    info = dict(info or {}, pointer_content=content)
    try:
        nm = content.decode("utf-8", "replace").strip()
        v = read_view(DirFS(root), metadata_file=nm, rows=False)
        info["reach"] = sorted(reachable_files(v) | {"metadata/" + nm})
    except Exception:
        pass
    return info


def _evaluate(full, root, out, labels, preexisting=()):
    """Replays the traced events on the model file system and evaluates the durability invariant at every pointer flip."""
    fs = DirFS(root)
    reach_cache = {}

    def reach(ptr_bytes):
        name = ptr_bytes.decode("utf-8", "replace").strip()
        if name not in reach_cache:
            try:
                v = read_view(fs, metadata_file=name, rows=False)
                reach_cache[name] = reachable_files(v) | {"metadata/" + name}
            except ReadError as e:
                reach_cache[name] = None
        return name, reach_cache[name]

    events = [e[:6] for e in full]
    ops = [e[6] for e in full]
    for e in events:
        if isinstance(e[5], dict) and e[5].get("reach") is not None and e[5].get("pointer_content") is not None:
            reach_cache.setdefault(e[5]["pointer_content"].decode("utf-8", "replace").strip(), set(e[5]["reach"]))
    in_commit_since = None
    reported = set()
    last_root_sync_flip = 0
    for idx, m, flips in replay_trace(events, root, labels, preexisting):
        out["prefixes"] += 1
        n, phase, layer, name, target, info = events[idx]
        # commit window bookkeeping for the non-triviality rule
        if name in ("os.replace",) and (target.startswith("data/") or target.startswith("metadata/manifests")):
            in_commit_since = in_commit_since or idx
            labels["data-file-in-commit"] += 1
        if in_commit_since is not None:
            out["nt_keys"].add(f"{ops[idx]}|{c04.norm_label(layer + ':' + name, target)}")
        is_flip = name == "os.replace" and target == HINT
        if is_flip:
            labels["pointer-flip"] += 1
            in_commit_since = None
            fidx, content, ino, ino_state = flips[-1]
            if ino_state["d"] != ino_state["v"]:
                out["violations"].append(("pointer-content-not-flushed", f"op {ops[idx]}: the pointer's temp file was renamed before its content was fsynced"))
        # a pointer rename is on disk for certain only once the table directory has been fsynced after it: until then a power loss may
        # bring back the last durable pointer - or any rename in between. Nothing such a pointer names may have been removed meanwhile.
        if flips and (is_flip or name in ("os.remove", "os.unlink")):
            dur_ino = m.dur.get(HINT)
            k0 = max([k for k, fl in enumerate(flips) if fl[2] == dur_ino], default=0)
            for fidx, content, ino, _st in flips[k0:-1]:
                nm = content.decode("utf-8", "replace").strip()
                gone = [f for f in ["metadata/" + nm] + sorted((reach(content)[1] or set()) - {"metadata/" + nm}) if f not in m.vol]
                if gone and ("stale", gone[0].split("/")[0]) not in reported:
                    reported.add(("stale", gone[0].split("/")[0]))
                    labels["stale-pointer-candidate"] += 1
                    out["violations"].append((f"pointer-rename-not-durable/older-pointer-names-removed-file/{'metadata' if gone[0].startswith('metadata/v') else 'other'}",
                                              f"op {ops[idx]}: the table directory was not fsynced after the pointer rename(s) since {nm}; a power loss now can bring that pointer back, "
                                              f"but {gone[0]} which it names has been removed"))
        # pointer versions evaluated for the durability of what they name: the newest one, at its flip
        cands = flips[-1:] if flips else []
        for fidx, content, ino, _st in cands:
            name_, rs = reach(content)
            if rs is None:
                if is_flip and ("unreadable", name_) not in reported:
                    reported.add(("unreadable", name_))
                    out["violations"].append(("pointer-names-unreadable-version", f"op {ops[idx]}: pointer flipped to {name_} which the independent reader cannot resolve"))
                continue
            if not is_flip:
                continue  # durability only grows for immutable files; evaluated at the flip, re-checked cheaply below
            for f in sorted(rs):
                ok, why = m.durable(f)
                if not ok:
                    cls = "data" if f.startswith("data/") else ("manifest" if "manifests/" in f else "metadata")
                    key = (cls, why, ops[idx])
                    if key not in reported:
                        reported.add(key)
                        out["violations"].append((f"not-durable-at-flip/{cls}/{why.replace(' ', '-')}",
                                                  f"op {ops[idx]}: at the pointer flip to {name_}, reachable file {f} has {why}"))


def check_case(case):
    import collections

    out = {"violations": [], "labels": [], "nontrivial": False, "nt_keys": set(), "prefixes": 0}
    labels = collections.Counter()
    with scratch_dir("c16") as d:
        root = os.path.realpath(d) + "/t"
        tr = Tracer(root)
        full = []
        tr.record = False
        cur_op = ["create"]
        def rec(n, phase, layer, name, target, info):
            if phase == "after" and name == "os.replace" and target == HINT:
                try:
                    with open(os.path.join(root, HINT), "rb") as fh:
                        info = _flip_info(root, info, fh.read())
                except OSError:
                    pass
            full.append((n, phase, layer, name, target, info, cur_op[0]))

        tr.handler = rec
        with installed(tr, storage_level=False):
            eng = Engine(root, props=())
            try:
                for i, s in enumerate(case["steps"]):
                    cur_op[0] = s["op"]
                    eng.step_no = i
                    try:
                        eng.apply(s)
                    except Exception:
                        break
            finally:
                eng.close()
        _evaluate(full, root, out, labels)
        out["nontrivial"] = bool(out["nt_keys"])
    out["labels"] = sorted(labels)
    return out


# ---------------- an fsync that FAILS: nothing it covered may be relied on ----------------
FS_OPS = ["append", "multi", "delete", "expire", "set_prop"]


def _fs_op(t, op):
    import copy

    if op == "append":
        t.append_records([{"k": 7, "s": "x"}])
    elif op == "multi":
        with t.new_transaction() as tx:
            tx.append_data([{"k": 8, "s": "y"}])
            tx.append_data([{"k": 9, "s": "z"}])
            tx.commit()
    elif op == "delete":
        p = sorted(df.file_path for df in t._get_all_data_files())[0]
        with t.new_transaction() as tx:
            tx.delete_files([p])
            tx.commit()
    elif op == "expire":
        with t.new_transaction() as tx:
            tx.expire_snapshots(10**15)
            tx.commit()
    elif op == "set_prop":
        mm = t.metadata_manager
        b = mm.refresh()
        n = copy.deepcopy(b)
        n.properties["p"] = "v"
        mm.commit(b, n)


def check_fsync_fault(case):
    """The k-th fsync issued by an operation (file or directory) raises EIO. In the power-loss model a failed fsync made
    nothing durable. Whether the operation then reports failure or success: at every pointer flip it still performs,
    everything reachable must be durable."""
    import collections

    import datashard
    from ..hist import FIELDS
    from ..tbl import make_schema

    out = {"violations": [], "labels": [], "nontrivial": False, "nt_keys": set(), "prefixes": 0}
    labels = collections.Counter()
    with scratch_dir("c16f") as d:
        root = os.path.realpath(d) + "/t"
        tr = Tracer(root)
        tr.record = False
        full = []
        state = {"op": "create", "armed": False, "n": 0, "fired": None}

        def rec(n, phase, layer, name, target, info):
            if state["armed"] and phase == "before" and name == "os.fsync":
                state["n"] += 1
                if state["n"] == case["k"]:
                    state["fired"] = target
                    full.append((n, "after", layer, "os.fsync.failed", target, info, state["op"]))
                    raise OSError(5, "injected: fsync failed")
            if phase == "after" and name == "os.replace" and target == HINT:
                try:
                    with open(os.path.join(root, HINT), "rb") as fh:
                        info = _flip_info(root, info, fh.read())
                except OSError:
                    pass
            full.append((n, phase, layer, name, target, info, state["op"]))

        tr.handler = rec
        outcome = "ok"
        with installed(tr, storage_level=False):
            t = datashard.create_table(root, make_schema(FIELDS))
            state["op"] = "base"
            t.append_records([{"k": 1, "s": "a"}])
            with t.new_transaction() as tx:
                tx.append_data([{"k": 2, "s": "b"}])
                tx.append_data([{"k": 3, "s": "c"}])
                tx.commit()
            state["op"] = case["op"]
            state["armed"] = True
            try:
                _fs_op(t, case["op"])
            except Exception as e:  # noqa
                outcome = f"raise:{type(e).__name__}"
            state["armed"] = False
            # fault-free commits afterwards: through the SAME handle (whatever the failed fsync left behind on it) and through a fresh one
            state["op"] = "follow-up"
            try:
                t.append_records([{"k": 49, "s": "after-same-handle"}])
            except Exception:
                labels["follow-up-raised"] += 1
            try:
                datashard.load_table(root).append_records([{"k": 50, "s": "after"}])
            except Exception:
                labels["follow-up-raised"] += 1
        out["fsyncs"] = state["n"]
        if state["fired"] is None:
            out["labels"] = ["fsync-fault-not-reached"]
            return out
        on_dir = os.path.isdir(os.path.join(root, state["fired"]))
        labels[f"fsync-fault:{'dir' if on_dir else 'file'}"] += 1
        labels[f"fsync-fault-outcome:{outcome.split(':')[0]}"] += 1
        _evaluate(full, root, out, labels)
        later = [(b, w) for b, w in out["violations"] if w.startswith("op follow-up:")]
        if later:
            # the fault is over and a LATER, fault-free commit is not durable: not explained by the one fsync that failed
            out["violations"] = [("later-commit-not-durable-after-failed-fsync/" + b, w + f" [earlier, the {case['k']}-th fsync of {case['op']} (on {state['fired']!r}) had failed once with EIO; the operation reported {outcome}]") for b, w in later[:1]]
            out["nontrivial"] = True
            out["nt_keys"] = {f"fsyncfault|{case['op']}|{c04.norm_label('os.fsync', state['fired'])}"}
            out["labels"] = sorted(labels)
            return out
        if on_dir and out["violations"]:
            # one root cause whatever the symptom: LocalStorageBackend.write_file / DataFileWriter.close swallow every OSError of the directory fsync
            out["violations"] = [("failed-directory-fsync-swallowed", out["violations"][0][1] + f" [the {case['k']}-th fsync of {case['op']} (on directory {state['fired']!r}) had failed with EIO; the operation reported {outcome}]")]
            out["nontrivial"] = True
            out["nt_keys"] = {f"fsyncfault|{case['op']}|{c04.norm_label('os.fsync', state['fired'])}"}
            out["labels"] = sorted(labels)
            return out
        out["violations"] = [(b + "/after-failed-fsync", w + f" [the {case['k']}-th fsync of {case['op']} (on {state['fired']}) had failed with EIO; the operation reported {outcome}]") for b, w in out["violations"]]
        out["nontrivial"] = True
        out["nt_keys"] = {f"fsyncfault|{case['op']}|{c04.norm_label('os.fsync', state['fired'])}"}
    out["labels"] = sorted(labels)
    return out


def run_fsync_faults(task):
    res = Result()
    op = task["op"]
    keys = set()
    nf = check_fsync_fault({"kind": "fsyncfault", "op": op, "k": 0}).get("fsyncs", 0)  # fault-free run: how many fsyncs the operation issues
    k = 1
    while k <= nf:
        case = {"kind": "fsyncfault", "op": op, "k": k}
        o = check_fsync_fault(case)
        keys.update(o.pop("nt_keys"))
        res.case(key=None, nontrivial=False, labels=o["labels"] + ["fsync-fault"], sample=case if k % 5 == 1 else None)
        res.evaluations += max(o["prefixes"] - 1, 0)
        for b, w in o["violations"]:
            res.violation(b, w, case)
        k += 1
        if k > 200:
            break
    res.nontrivial.update(keys)
    res.extra["fsync_fault_every_fsync_of_each_operation"] = True
    return res


# ---------------- several threads committing through ONE table handle ----------------
def check_conc(case):
    """Two committers share one Table object (threads of one process), a third commit follows through the same handle;
    the interleaving is owned by the deterministic scheduler (a decision at EVERY traced call). The same model file
    system and the same invariant: at every pointer flip everything reachable is durable - whoever wrote it."""
    import collections

    from ..conc import run_scheduled, share_handle
    from ..tbl import make_schema
    from ..hist import FIELDS
    from ..world import LocalWorld

    out = {"violations": [], "labels": [], "nontrivial": False, "nt_keys": set(), "prefixes": 0}
    labels = collections.Counter()
    with scratch_dir("c16c") as d:
        root = os.path.realpath(d) + "/t"
        world = LocalWorld(root)
        with world.env():
            t0 = world.create(make_schema(FIELDS))
            t0.append_records([{"k": 0, "s": "base"}])
        pre = [os.path.relpath(os.path.join(r, f), root) for r, _d, fs_ in os.walk(root) for f in fs_]
        full = []

        def on_event(sch, a, phase, label, target, info):
            layer, name = label.split(":", 1)
            if phase == "after" and name == "os.replace" and target == HINT:
                try:
                    with open(os.path.join(root, HINT), "rb") as fh:
                        info = _flip_info(root, info, fh.read())
                except OSError:
                    pass
            full.append((sch.global_steps, phase, layer, name, target, info, f"{case['ops'][a.idx] if a.idx < len(case['ops']) else 'late-append'}"))

        def make_actors(w, sch, clk):
            t = share_handle(w.open(), sch)
            actors = []
            for i, op in enumerate(case["ops"]):
                if op == "append":
                    actors.append((f"a{i}", lambda i=i: t.append_records([{"k": 10 + i, "s": f"a{i}"}])))
                else:
                    def multi(i=i):
                        with t.new_transaction() as tx:
                            tx.append_data([{"k": 20 + i, "s": "m"}])
                            tx.append_data([{"k": 30 + i, "s": "m"}])
                            return tx.commit()

                    actors.append((f"m{i}", multi))
            actors.append(("late", lambda: t.append_records([{"k": 99, "s": "late"}])))
            return actors

        run = run_scheduled(world, make_actors, case["schedule"], fine=True, on_event=on_event)
        if run.error is not None:
            out["violations"].append((f"scheduler/{type(run.error).__name__}", str(run.error)[:200]))
            return out
        for oc, val in run.outcomes:
            labels[f"outcome:{oc}" + (f":{type(val).__name__}" if oc == "raise" else "")] += 1
        labels["shared-handle-threads"] += 1
        _evaluate(full, root, out, labels, preexisting=pre)
        out["nontrivial"] = len(run.flips) >= 2
        out["decisions"] = run.sched.decisions
        # decisions at which actor 0 is about to PUBLISH a file (rename it to its final name)
        out["publish_points"] = [d + 1 for d, aidx, label, _t in run.sched.log if aidx == 0 and label.endswith("os.replace")]
    out["labels"] = sorted(labels)
    return out


CONC_FIXED = [["append", "append"], ["multi", "append"]]


def run_conc_enum(task):
    res = Result()
    ops = task["ops"]
    n = len(ops) + 1
    o = check_conc({"kind": "conc", "ops": ops, "schedule": {"order": list(range(n))}})
    D = o.get("decisions", 300)
    if task.get("depth2"):
        # 'A is interrupted at i, B runs k steps, A continues to its end, then B': B gets stuck in the middle of one of its steps
        # while A completes a step of its own - the shape of lost-update races on state shared through the handle
        scheds = [{"order": list(range(n)), "preempt": [[i, 1], [i + k, 0]]} for i in range(1, int(D * 1.1) + 2) for k in range(1, 9)]
        # ... and, with A parked right before it publishes a file, B may run up to 160 steps (a whole commit minus its flip)
        scheds += [{"order": list(range(n)), "preempt": [[i, 1], [i + k, 0]]} for i in o.get("publish_points", []) for k in range(9, 161)]
    else:
        scheds = [{"order": list(range(n))}] + [{"order": list(range(n)), "preempt": [[i, j]]} for i in range(1, int(D * 1.1) + 2) for j in range(n - 1)]
    keys = set()
    for idx, schd in enumerate(scheds):
        if idx % task["nshard"] != task["shard"]:
            continue
        case = {"kind": "conc", "ops": ops, "schedule": schd}
        o = check_conc(case)
        keys.update(o.pop("nt_keys"))
        res.case(key=None, nontrivial=False, labels=o["labels"] + ["conc-enum-depth2" if task.get("depth2") else "conc-enum-depth1"], sample=case if idx % 97 == 0 else None)
        res.evaluations += o["prefixes"] - 1
        for b, w in o["violations"]:
            res.violation(b + "/shared-handle", w + f" [ops {ops}, schedule {schd}]", case)
    res.nontrivial.update(f"conc|{k}" for k in keys)
    return res


@st.composite
def conc_case(draw):
    ops = draw(st.lists(st.sampled_from(["append", "multi"]), min_size=2, max_size=3))
    n = len(ops) + 1
    pre = sorted([draw(st.integers(1, 400)), draw(st.integers(0, n - 2))] for _ in range(draw(st.integers(1, 3))))
    return {"kind": "conc", "ops": ops, "schedule": {"order": list(range(n)), "preempt": pre}}


def plan(tier, seed):
    n = 50 if tier == "quick" else 600
    tasks = [{"n": n, "seed": seed * 1000 + s, "tier": tier} for s in range(16)]
    ns = 4 if tier == "quick" else 8
    for ops in (CONC_FIXED[:1] if tier == "quick" else CONC_FIXED):
        tasks += [{"kind": "conc_enum", "ops": ops, "shard": s_, "nshard": ns} for s_ in range(ns)]
        tasks += [{"kind": "conc_enum", "ops": ops, "shard": s_, "nshard": 12, "depth2": True} for s_ in range(12)]
    tasks += [{"kind": "fsync_fault", "op": op} for op in FS_OPS]
    tasks += [{"kind": "conc_pct", "n": 25 if tier == "quick" else 600, "seed": seed * 1000 + 700 + s, "tier": tier} for s in range(4 if tier == "quick" else 16)]
    return tasks


def run_task(task):
    if task.get("kind") == "conc_enum":
        return run_conc_enum(task)
    if task.get("kind") == "fsync_fault":
        return run_fsync_faults(task)
    res = Result()
    keys = set()
    prefixes = [0]
    if task.get("kind") == "conc_pct":
        def chk_c(case):
            o = check_conc(case)
            keys.update(f"conc|{k}" for k in o.pop("nt_keys"))
            prefixes[0] += o.pop("prefixes")
            for i, (b, w) in enumerate(o["violations"]):
                o["violations"][i] = (b + "/shared-handle", w)
            return o

        campaign(conc_case(), chk_c, task["n"], task["seed"], res, PROP, shrink=task["tier"] == "thorough")
        res.nontrivial = set(keys)
        res.evaluations = prefixes[0]
        return res

    def chk(case):
        o = check_case(case)
        keys.update(o.pop("nt_keys"))
        prefixes[0] += o.pop("prefixes")
        return o

    campaign(case_strategy(), chk, task["n"], task["seed"], res, PROP, shrink=task["tier"] == "thorough")
    res.nontrivial = set(keys)
    res.evaluations = prefixes[0]
    res.extra["histories"] = task["n"]
    res.extra["exhaustive_over_trace_prefixes"] = True
    return res


def replay(case):
    if case.get("kind") == "fsyncfault":
        o = check_fsync_fault(case)
        return [{"bucket": b, "what": w} for b, w in o["violations"]]
    if case.get("kind") == "conc":
        o = check_conc(case)
        return [{"bucket": b + "/shared-handle", "what": w} for b, w in o["violations"]]
    _fix_steps(case["steps"])
    o = check_case(case)
    return [{"bucket": b, "what": w} for b, w in o["violations"]]
