"""C04 - A failed, interrupted or ambiguous commit never damages committed data.

Exhaustive single-fault enumeration over the numbered step sequence of each scenario's clean run
(local: os-level calls + storage API + lock syscalls; S3: every request, before and after effect),
plus bounded double faults (second fault in rollback / cleanup / release)."""
from __future__ import annotations

import collections
import re

from botocore.exceptions import ClientError

from ..common import Result, chash, scratch_dir
from ..fakes3 import client_error
from ..hist import FIELDS
from ..reader import HINT, ReadError, read_view, reachable_files, rows_multiset, view_digest, current_rows, current_snapshot
from ..tbl import make_schema
from ..world import LocalWorld, S3World, Stepper

PROP = "C04"
LEVEL = "fault_enumeration"
RULE = ("For each scenario (backend in {local, S3 with conditional writes, S3 without} x operation in {append, multi-append transaction, delete_files, "
        "expire, delete_snapshot} x call style in {append_records, with-block auto commit, with-block explicit commit, begin/commit/rollback-on-Exception} "
        "on a table with 3 prior snapshots) the clean run's step sequence is recorded and a fault is injected at EVERY step: a storage error before the "
        "step's effect, (S3) an error after the effect of every PUT/DELETE, KeyboardInterrupt before and after every step, SystemExit before every step; "
        "plus double faults (a second error j steps later, j<=8, i.e. inside rollback/cleanup/lock release). Non-trivial: the fault fired after the "
        "transaction wrote its first file. distinct = (scenario, fault kind, normalised step label, phase).")
ASSUMPTIONS = ["local writes are atomic-or-absent, so 'error after effect' is only generated for object storage",
               "after an asynchronous interrupt the process is assumed to exit: kernel flocks are dropped / the S3 lock lease lapses before the follow-up",
               "S3 'storage error' = a permanent ClientError (AccessDenied), which the retry layer does not mask"]

STYLES = {"append": ["records", "with_auto", "with_commit", "explicit"], "multi": ["with_auto", "with_commit", "explicit"],
          "delete": ["with_auto", "with_commit", "explicit"], "expire": ["with_commit", "explicit"], "delete_snapshot": ["direct"], "replace": ["with_commit"]}


def scenarios(tier):
    out = []
    worlds = ["local", "s3cas", "s3plain"]
    for w in worlds:
        for op, styles in STYLES.items():
            for sty in styles:
                if tier == "quick" and w != "local" and sty not in ("records", "with_auto", "with_commit", "direct"):
                    continue
                if tier == "quick" and w == "s3plain" and op not in ("append", "delete", "replace"):
                    continue
                out.append({"world": w, "op": op, "style": sty})
    # partial deletes (the manifest that lists the deleted file is rewritten, the old one stays referenced by the older snapshots)
    out.append({"world": "local", "op": "delete", "style": "with_auto", "partial": True})
    out.append({"world": "s3cas", "op": "delete", "style": "with_commit", "partial": True})
    return out


def make_world(d, kind):
    if kind == "local":
        return LocalWorld(d + "/t")
    return S3World(conditional=(kind == "s3cas"))


def build_base(world, partial=False):
    with world.env():
        t = world.create(make_schema(FIELDS))
        if partial:
            # ONE manifest listing two data files: deleting one of them rewrites that manifest (a partial delete)
            with t.new_transaction() as tx0:
                tx0.append_data([{"k": 1, "s": "a"}])
                tx0.append_data([{"k": 2, "s": "b"}])
                tx0.commit()
        else:
            t.append_records([{"k": 1, "s": "a"}, {"k": 2, "s": "b"}])
        t.append_records([{"k": 3, "s": "c"}])
        t.append_records([{"k": 4, "s": "d"}])
    v = read_view(world.fs())
    return v


def do_op(t, sc, pre, holder=None):
    """Run the operation the way the docs show for the style; returns nothing, raises on failure.
    holder["tx"] receives the Transaction object (it outlives the failure and may be reused by the application)."""
    holder = {} if holder is None else holder
    op, sty = sc["op"], sc["style"]
    rows1, rows2 = [{"k": 100, "s": "x"}], [{"k": 101, "s": "y"}, {"k": 102, "s": "z"}]

    def body(tx):
        if op == "append":
            tx.append_data(rows1)
        elif op == "multi":
            tx.append_data(rows1)
            tx.append_data(rows2)
        elif op == "delete":
            tx.delete_files([pre["del_path"]])
        elif op == "replace":
            # one transaction removes a file and adds its replacement: ONE commit point
            tx.delete_files([pre["del_path"]])
            tx.append_data(rows1)
        elif op == "expire":
            tx.expire_snapshots(pre["cutoff"])

    if sty == "records":
        t.append_records(rows1)
    elif sty == "direct":
        t.snapshot_manager.delete_snapshot(pre["del_snapshot"])
    elif sty == "with_auto":
        with t.new_transaction() as tx:
            holder["tx"] = tx
            body(tx)
    elif sty == "with_commit":
        with t.new_transaction() as tx:
            holder["tx"] = tx
            body(tx)
            tx.commit()
    elif sty == "explicit":
        tx = t.new_transaction().begin()
        holder["tx"] = tx
        try:
            body(tx)
            tx.commit()
        except Exception:
            tx.rollback()
            raise


def pre_info(v, partial=False):
    cur = current_snapshot(v)
    return {"digest": view_digest(v), "ids": [s["id"] for s in v["snapshots"]], "rows": current_rows(v), "files": set(cur["files"]),
            "del_path": sorted(v["snapshots"][0]["files"])[0] if partial else sorted(cur["files"])[0], "cutoff": v["snapshots"][1]["ts"] + 1 if v["snapshots"][1]["ts"] < v["snapshots"][2]["ts"] else v["snapshots"][2]["ts"],
            "del_snapshot": v["snapshots"][0]["id"], "pointer": v["metadata_file"], "by_id": {s["id"]: s for s in v["snapshots"]}, "current_id": v["current_id"]}


def classify(world, sc, pre):
    """'pre' | 'post' | ('damaged', why) | ('other', why) from an independent read of the table."""
    try:
        v = read_view(world.fs())
    except ReadError as e:
        return ("damaged", str(e)), None
    # every retained snapshot unchanged if it existed before
    for s in v["snapshots"]:
        o = pre["by_id"].get(s["id"])
        if o is not None and (s["files"] != o["files"] or s["rows"] != o["rows"]):
            return ("damaged", f"pre-existing snapshot {s['id']} changed"), v
    if view_digest(v) == pre["digest"] and v["metadata_file"] == pre["pointer"]:
        return "pre", v
    ids = [s["id"] for s in v["snapshots"]]
    op = sc["op"]
    new = [i for i in ids if i not in pre["ids"]]
    rows = current_rows(v)
    # a table with a snapshot retention count trims its oldest snapshots in the commit that adds one: then the post-state keeps a
    # suffix of the earlier snapshots (how many is C15's subject), not all of them
    if len(new) == 1 and ids and ids[-1] == new[0] and str((v.get("properties") or {}).get("datashard.snapshot.retention-count", "")).strip().isdigit():
        kept = ids[:-1]
        if kept == pre["ids"][len(pre["ids"]) - len(kept):]:
            pre = dict(pre, ids=kept)
    if op in ("append", "multi"):
        add = [{"k": 100, "s": "x"}] + ([{"k": 101, "s": "y"}, {"k": 102, "s": "z"}] if op == "multi" else [])
        if len(new) == 1 and ids[:-1] == pre["ids"] and rows == pre["rows"] + rows_multiset(add) and v["current_id"] == new[0]:
            return "post", v
    elif op == "delete":
        cur = current_snapshot(v)
        if len(new) == 1 and ids[:-1] == pre["ids"] and set(cur["files"]) == pre["files"] - {pre["del_path"]}:
            return "post", v
    elif op == "replace":
        cur = current_snapshot(v)
        gone = rows_multiset([r for r in pre["by_id"][pre["current_id"]]["rows_by_file"].get(pre["del_path"], [])]) if pre.get("current_id") in pre["by_id"] else rows_multiset([])
        if len(new) == 1 and ids[:-1] == pre["ids"] and pre["del_path"] not in cur["files"] and rows == (pre["rows"] - gone) + rows_multiset([{"k": 100, "s": "x"}]) and v["current_id"] == new[0]:
            return "post", v
    elif op == "expire":
        want = [i for i in pre["ids"] if pre["by_id"][i]["ts"] >= pre["cutoff"] or i == pre["ids"][-1]]
        if not new and ids == want and rows == pre["rows"]:
            return "post", v
    elif op == "delete_snapshot":
        want_ids = [i for i in pre["ids"] if i != pre["del_snapshot"]]
        if not new and ids == want_ids:
            if pre.get("current_id") != pre["del_snapshot"]:
                ok = rows == pre["rows"]
            else:
                # the CURRENT snapshot was deleted: the table repoints to a survivor (which one is C09's subject) or is empty
                ok = any(rows == pre["by_id"][i]["rows"] for i in want_ids) if want_ids else not rows
            if ok:
                return "post", v
    return ("other", f"snapshots {len(ids)} (new {len(new)}), rows {sum(rows.values())}"), v


def norm_label(label, target):
    t = target
    t = re.sub(r"auto_[0-9a-f]+", "auto_X", t)
    t = re.sub(r"manifest_list_\d+_\d+_[0-9a-f]+", "mlist_X", t)
    t = re.sub(r"manifest_\d+_[0-9a-f]+", "manifest_X", t)
    t = re.sub(r"v\d+-[0-9a-f]{8}", "vN", t)
    t = re.sub(r"\.tmp\.[^.]+\.", ".tmp.", t)
    t = re.sub(r"tmp[a-z0-9_]{6,}\.parquet", "tmpX.parquet", t)
    return f"{label} {t}"


class Injector:
    def __init__(self, stepper, k, kind, phase, second=None, world_kind="local"):
        self.st, self.k, self.kind, self.phase, self.second = stepper, k, kind, phase, second
        self.fired = []
        self.wk = world_kind
        stepper.handler = self.handle

    def _exc(self, kind):
        if kind == "ki":
            return KeyboardInterrupt("injected")
        if kind == "se":
            return SystemExit(3)
        if self.wk == "local":
            return OSError(5, "injected I/O error")
        if kind == "terr":
            # a RETRYABLE failure (the retry layer may re-send the request): e.g. the connection dropped after the server applied it
            from botocore.exceptions import ConnectionClosedError

            return ConnectionClosedError(endpoint_url="http://fake-s3")
        return client_error("AccessDenied", "Op", 403)

    def handle(self, n, phase, label, target, info):
        # close(2) always releases the descriptor, even when it reports an error: an 'error before effect'
        # does not exist for it, so storage errors on os.close are raised after the effect
        def want(ph):
            return "after" if label.endswith("os.close") and ph == "before" else ph

        if not self.fired:
            if n == self.k and phase == (want(self.phase) if self.kind == "err" else self.phase):
                self.fired.append((n, phase, label, target))
                raise self._exc(self.kind)
        elif self.second is not None and len(self.fired) == 1:
            if phase == want("before") and n == self.fired[0][0] + self.second:
                self.fired.append((n, phase, label, target))
                raise self._exc("err")


def run_scenario_kind(sc, kind, shard, nshard, tier, double=False):
    res = Result()
    with scratch_dir("c04") as d:
        base = make_world(d, sc["world"])
        v0 = build_base(base, partial=bool(sc.get("partial")))
        pre = pre_info(v0, partial=bool(sc.get("partial")))
        # ---- clean run: learn the step sequence
        w = base.clone(d + "/clean") if sc["world"] == "local" else base.clone()
        st = Stepper()
        with w.env(st):
            t = w.open()
            st.enabled = True
            do_op(t, sc, pre)
            st.enabled = False
        cls, _ = classify(w, sc, pre)
        if cls != "post":
            res.violation("clean-run-not-post", f"scenario {sc}: fault-free run ended in {cls}", {"kind": "inject", "sc": sc, "k": 0, "fault": "none", "phase": "before"})
            return res
        N = st.n
        events = list(st.events)
        first_write = None
        for n, phase, label, target in events:
            if phase == "after" and (label.endswith("os.replace") or label.startswith("s3:put")) and (target.startswith("data/") or target.startswith("metadata/")):
                first_write = n
                break
        plan = []
        phase = "after" if kind.endswith("_after") else "before"
        fk = kind.split("_")[0]
        for n, ph, label, target in events:
            if ph != "before":
                continue
            if kind in ("err_after", "terr_after") and not (label.startswith("s3:put") or label.startswith("s3:delete")):
                continue
            plan.append((n, label, target))
        idx = 0
        for (k, label, target) in plan:
            idx += 1
            if idx % nshard != shard:
                continue
            seconds = [None]
            if double:
                seconds = list(range(1, 9))
            for second in seconds:
                wi = base.clone(f"{d}/i{k}_{second}") if sc["world"] == "local" else base.clone()
                sti = Stepper()
                inj = Injector(sti, k, fk, phase, second, "local" if sc["world"] == "local" else "s3")
                outcome, exc = "ok", None
                holder = {}
                with wi.env(sti):
                    t = wi.open()
                    sti.enabled = True
                    try:
                        do_op(t, sc, pre, holder)
                    except BaseException as e:  # noqa - KeyboardInterrupt / SystemExit are the point
                        outcome, exc = "raise", e
                    sti.enabled = False
                    sti.handler = None
                    case = {"kind": "inject", "sc": sc, "k": k, "fault": fk, "phase": phase, "second": second, "step": norm_label(label, target)}
                    nontrivial = first_write is not None and k > first_write
                    res.case(key=f"{sc['world']}|{sc['op']}|{sc['style']}|{kind}|{norm_label(label, target)}|{second}", nontrivial=nontrivial,
                             labels=[f"world:{sc['world']}", f"kind:{kind}", f"outcome:{outcome}"] + (["double"] if second else []),
                             sample=case if nontrivial and k % 37 == 0 else None)
                    if not inj.fired:
                        res.labels["fault-not-reached"] += 1
                        continue
                    vio = judge(wi, sc, pre, fk, outcome, exc, sti, inj, failed_handle=t if outcome == "raise" else None, tx=holder.get("tx"), labels=res.labels)
                    if wi.kind == "local":
                        import shutil

                        shutil.rmtree(wi.root, ignore_errors=True)
                if vio:
                    res.violation(vio[0], f"{sc['world']}/{sc['op']}/{sc['style']} fault {kind} at step {k} [{norm_label(label, target)}]" + (f" + second error {second} steps later" if second else "") + f": {vio[1]}", case)
    res.extra["steps_in_clean_run"] = N
    return res


def judge(w, sc, pre, fk, outcome, exc, st, inj, failed_handle=None, tx=None, labels=None):
    from datashard import AmbiguousCommitError

    interrupt = fk in ("ki", "se")
    if fk == "terr" and outcome == "raise" and not isinstance(exc, Exception):
        interrupt = True
    tag = f"{'interrupt' if interrupt else 'error'}"
    cls, v = classify(w, sc, pre)
    if isinstance(cls, tuple):
        return (f"{tag}/{cls[0]}-state", f"outcome={outcome} ({type(exc).__name__ if exc else ''}); table is {cls[0]}: {cls[1]}")
    if outcome == "ok" and cls != "post":
        return (f"{tag}/success-but-{cls}/{sc['op']}", "call returned success but the table is in the pre-state")
    # the pointer flip is the commit point: once the pointer has named the new version (any reader may have served it),
    # whatever went wrong afterwards must not take the new version away again
    flipped = any(ph == "after" and HINT in (target or "") and (label.endswith("os.replace") or label.startswith("s3:put")) for _n, ph, label, target in st.events)
    if flipped and cls == "pre":
        return (f"{tag}/reverted-after-flip/{sc['op']}", f"outcome={outcome} ({type(exc).__name__ if exc else ''}): the pointer flipped to the new version, which was then taken away again (table back in the pre-state)")
    ambiguous = isinstance(exc, AmbiguousCommitError)
    if outcome == "raise" and not interrupt and not ambiguous and cls != "pre":
        # a second (injected) error may be the one that surfaced; the rule is about the reported outcome
        return (f"{tag}/raised-but-post/{sc['op']}", f"raised {type(exc).__name__}: {str(exc)[:80]} but the table is in the post-state")
    if ambiguous:
        if w.kind == "local":
            return (f"{tag}/ambiguous-on-local/{sc['op']}", "AmbiguousCommitError raised on the local backend")
        hint_fault = any("metadata.version-hint.text" in f[3] for f in inj.fired)
        if not hint_fault:
            return (f"{tag}/ambiguous-without-pointer-fault/{sc['op']}", f"AmbiguousCommitError although the fault hit {inj.fired}")
        missing = [p for p in w.written_paths(st.events) if not w.exists(p)]
        if missing:
            return (f"{tag}/ambiguous-deleted-files/{sc['op']}", f"ambiguous outcome but files written by the transaction were deleted: {missing[:2]}")
    # ---- afterwards: readable, writable, uncommitted files never become reachable
    if interrupt:
        w.process_exit()
    else:
        if w.kind != "local":
            w.process_exit()  # a lock whose release failed self-heals by lease expiry
    before_rows = current_rows(v)
    before_files = set(current_snapshot(v)["files"]) if current_snapshot(v) else set()
    extra = []
    if not interrupt and failed_handle is not None:
        # the handle that experienced the failure lives on in this process: it must stay usable too
        try:
            lp = failed_handle.metadata_manager.lock_provider
            if hasattr(lp, "lock"):
                lp.lock.timeout = 1.0
            failed_handle.append_records([{"k": 901, "s": "same-handle"}])
            extra = [{"k": 901, "s": "same-handle"}]
            got0 = rows_multiset(failed_handle.scan())
            if got0 != before_rows + rows_multiset(extra):
                return (f"{tag}/same-handle-follow-up-rows-wrong/{sc['op']}", f"append+scan through the handle that failed gave {sum(got0.values())} rows, expected {sum(before_rows.values()) + 1}")
        except BaseException as e:  # noqa
            return (f"{tag}/same-handle-unusable-afterwards/{type(e).__name__}", f"follow-up append/scan through the SAME handle failed: {type(e).__name__}: {str(e)[:100]}")
    try:
        t2 = w.open()
        lp = t2.metadata_manager.lock_provider
        if hasattr(lp, "lock"):
            lp.lock.timeout = 1.0
        t2.append_records([{"k": 900, "s": "after"}])
        got = rows_multiset(w.open().scan())
    except BaseException as e:  # noqa
        return (f"{tag}/not-writable-afterwards/{type(e).__name__}", f"follow-up append/scan failed: {type(e).__name__}: {str(e)[:100]}")
    if got != before_rows + rows_multiset([{"k": 900, "s": "after"}] + extra):
        return (f"{tag}/follow-up-rows-wrong/{sc['op']}", f"after the follow-up append the table has {sum(got.values())} rows, expected {sum(before_rows.values()) + 1 + len(extra)}")
    v2 = read_view(w.fs())
    files2 = set(current_snapshot(v2)["files"])
    if len(files2 - before_files) != 1 + len(extra) or (before_files - files2):
        return (f"{tag}/uncommitted-files-reachable/{sc['op']}", f"follow-up snapshot files {sorted(files2)} vs state before {sorted(before_files)}")
    if tx is not None:
        # the application still holds the Transaction object and reuses it (begin() documents the reset for reuse):
        # a new attempt that is rolled back must take with it only ITS OWN files, whatever the earlier attempt left on the object
        try:
            tx.begin()
            tx.append_data([{"k": 950, "s": "reused-tx"}])
            tx.rollback()
            if labels is not None:
                labels["tx-object-reused"] += 1
        except BaseException as e:  # noqa - refusing reuse is allowed; damage is not
            if labels is not None:
                labels[f"tx-object-reuse-refused:{type(e).__name__}"] += 1
        try:
            v3 = read_view(w.fs())
        except ReadError as e:
            return (f"{tag}/reused-transaction-object-damaged-table/{sc['op']}", f"begin + append_data + rollback on the Transaction object of the failed attempt left the table unreadable: {e}")
        if view_digest(v3) != view_digest(v2):
            return (f"{tag}/reused-transaction-object-changed-table/{sc['op']}", "begin + append_data + rollback on the Transaction object of the failed attempt changed the committed state")
    return None


def plan(tier, seed):
    tasks = []
    for sc in scenarios(tier):
        kinds = ["err_before", "ki_before", "ki_after", "se_before"]
        if sc["world"] != "local":
            kinds.append("err_after")
            kinds.append("terr_after")
        if tier == "quick":
            # quick: every step for errors; interrupts at every step for the primary style, every 2nd step otherwise
            for kind in kinds:
                if kind == "se_before" and sc["style"] not in ("records", "with_auto", "direct"):
                    continue
                tasks.append({"sc": sc, "kind": kind, "shard": 0, "nshard": 1, "tier": tier})
        else:
            for kind in kinds:
                for s in range(2):
                    tasks.append({"sc": sc, "kind": kind, "shard": s, "nshard": 2, "tier": tier})
            for s in range(4):
                tasks.append({"sc": sc, "kind": "err_before", "shard": s, "nshard": 4, "tier": tier, "double": True})
    if tier == "quick":
        for sc in [{"world": "local", "op": "append", "style": "records"}, {"world": "s3cas", "op": "append", "style": "with_auto"}]:
            for s in range(4):
                tasks.append({"sc": sc, "kind": "err_before", "shard": s, "nshard": 4, "tier": tier, "double": True})
    return tasks


def run_task(task):
    r = run_scenario_kind(task["sc"], task["kind"], task["shard"], task["nshard"], task["tier"], double=task.get("double", False))
    r.extra["exhaustive_over_step_sequence"] = True
    return r


def replay(case):
    """Re-run one injection."""
    sc = case["sc"]
    with scratch_dir("c04r") as d:
        base = make_world(d, sc["world"])
        pre = pre_info(build_base(base, partial=bool(sc.get("partial"))), partial=bool(sc.get("partial")))
        if "match" in case:
            # robust addressing: the n-th step (after the pointer flip if 'after_flip') whose normalised label matches
            w = base.clone(d + "/clean") if sc["world"] == "local" else base.clone()
            st0 = Stepper()
            with w.env(st0):
                t0 = w.open()
                st0.enabled = True
                do_op(t0, sc, pre)
                st0.enabled = False
            flip = None
            hits = []
            for n, ph, label, target in st0.events:
                if ph != "before":
                    continue
                if flip is None and "metadata.version-hint.text" in target and (label.endswith("os.replace") or label.startswith("s3:put")):
                    flip = n
                if re.search(case["match"], norm_label(label, target)) and (not case.get("after_flip") or (flip is not None and n > flip)):
                    hits.append(n)
            if not hits:
                return []
            case = dict(case, k=hits[min(case.get("occurrence", 0), len(hits) - 1)])
        st = Stepper()
        inj = Injector(st, case["k"], case["fault"], case["phase"], case.get("second"), "local" if sc["world"] == "local" else "s3")
        outcome, exc = "ok", None
        holder = {}
        with base.env(st):
            t = base.open()
            st.enabled = True
            try:
                do_op(t, sc, pre, holder)
            except BaseException as e:  # noqa
                outcome, exc = "raise", e
            st.enabled = False
            st.handler = None
            if not inj.fired:
                return []
            vio = judge(base, sc, pre, case["fault"], outcome, exc, st, inj, failed_handle=t if outcome == "raise" else None, tx=holder.get("tx"))
        return [{"bucket": vio[0], "what": vio[1]}] if vio else []
