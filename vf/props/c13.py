"""C13 - File pruning never changes a query's answer.

(a) exhaustive small domain: one file per multiset of <=3 values of a small per-type domain, every
    operator x literal; (b) random end-to-end tables over all column types; (c) bounds round trip.
Oracle: metamorphic - scan with pruning == scan with prune_files_by_bounds replaced by identity.
"""
from __future__ import annotations

import datetime as dt
import itertools
import math

from hypothesis import strategies as st

from ..common import Result, chash, jsonable, scratch_dir
from ..hyp import campaign
from ..lib import READ_APIS, load, new_table, no_pruning, run_read, setup_append, spy_pruning
from ..reader import DirFS, Undecoded, read_view, rows_multiset
from .. import tbl

PROP = "C13"
LEVEL = "exploration"
RULE = ("(a) exhaustive: every multiset of <=3 values from a 6-value domain per column type (84 files) x every "
        "operator x every literal of the domain plus mid-points, and cross-type sub-domains (Decimal / double spelling of float32 values / ints and floats around 2^53 / "
        "datetime literals on date columns and dates on timestamp columns / bytes on strings); (b) Hypothesis tables of 2-6 files over all column "
        "types x filter grammar x read API; (c) decoded manifest bounds vs true min/max. A case is non-trivial when "
        "pruning skipped >=1 file (counted by wrapping the pruning function); distinct = hash of (data, filter, api).")
ASSUMPTIONS = ["where the pruned or the un-pruned scan raises (a literal Arrow cannot cast) there is no answer to compare; cross-type literals are compared wherever both return",
               "the un-pruned scan (identity substituted for prune_files_by_bounds) is the reference answer"]

NAN = float("nan")
DOMAINS = {
    "double": ([None, NAN, -1.0, 0.0, 1.0, 2.0], [NAN, -1.0, 0.0, 0.5, 1.0, 1.5, 2.0, 3.0, -1, 1, 2]),
    "float": ([None, NAN, -1.0, 0.0, 1.0, 2.0], [NAN, -1.0, 0.0, 0.5, 1.0, 1.5, 2.0, 3.0, 1]),
    "long": ([None, -1, 0, 1, 2, 2**53 + 1], [-2, -1, 0, 1, 2, 3, 2**53, 2**53 + 1, 2**53 + 2, 0.5, 1.0, 1.5]),
    "int": ([None, -1, 0, 1, 2, 2**31 - 1], [-2, -1, 0, 1, 2, 3, 2**31 - 1, 2**31 - 2, 0.5, 1.5]),
    "string": ([None, "", "a", "b", "10", "9"], ["", "a", "ab", "b", "c", "10", "9", "1", "é"]),
    "boolean": ([None, True, False], [True, False]),
    "date": ([None, dt.date(1969, 12, 31), dt.date(1970, 1, 1), dt.date(2024, 2, 29)],
             [dt.date(1969, 12, 30), dt.date(1969, 12, 31), dt.date(1970, 1, 1), dt.date(2000, 1, 1), dt.date(2024, 2, 29), dt.date(2024, 3, 1)]),
    "timestamp": ([None, dt.datetime(1969, 12, 31, 23, 59, 59, 999999), dt.datetime(1970, 1, 1), dt.datetime(2024, 2, 29, 12, 0, 0, 1)],
                  [dt.datetime(1969, 12, 31, 23, 59, 59, 999998), dt.datetime(1969, 12, 31, 23, 59, 59, 999999), dt.datetime(1970, 1, 1),
                   dt.datetime(2024, 2, 29, 12), dt.datetime(2024, 2, 29, 12, 0, 0, 1), dt.datetime(2024, 2, 29, 12, 0, 0, 2)]),
}
# cross-type literal sub-domains ('<column type>#x'): the literal is another python type / precision than the column.
# Pruning compares literal and bounds in Python, the row filter casts through Arrow: wherever both return, they must agree.
import decimal as _dec

_f32 = lambda x: __import__("struct").unpack("f", __import__("struct").pack("f", x))[0]
DOMAINS.update({
    "double#x": ([None, 0.1, 0.5, 1.0, float(2**53), 5.0],
                 [_dec.Decimal("0.1"), _dec.Decimal("0.5"), _dec.Decimal("1"), _dec.Decimal("0.30"), 2**53 + 1, 2**53, _dec.Decimal(2**53) + 1, 1, 5]),
    "float#x": ([None, _f32(0.1), 0.5, 1.0, 16777216.0, 5.0],
                [0.1, _f32(0.1), 0.10000000000000002, _dec.Decimal("0.1"), _dec.Decimal("0.5"), 16777217, 16777216, 0.3, 5]),
    "long#x": ([None, 1, 2, 2**53, 2**53 + 1, -3],
               [_dec.Decimal(1), _dec.Decimal("1.5"), 1.5, 1.0, float(2**53), 9007199254740994.0, _dec.Decimal(2**53 + 1), -3.0]),
    "date#x": ([None, dt.date(1970, 1, 1), dt.date(2024, 3, 1), dt.date(2024, 3, 5)],
               [dt.datetime(2024, 3, 1), dt.datetime(2024, 3, 1, 12), dt.datetime(2024, 3, 5, 12), dt.datetime(1970, 1, 1, 0, 0, 0, 1), dt.datetime(2024, 3, 4, 23, 59, 59), "2024-03-01"]),
    "timestamp#x": ([None, dt.datetime(2024, 3, 1), dt.datetime(2024, 3, 1, 12), dt.datetime(2024, 3, 5, 0, 0, 0, 1)],
                    [dt.date(2024, 3, 1), dt.date(2024, 3, 2), dt.date(2024, 3, 5), dt.date(2024, 3, 6), "2024-03-01T12:00:00"]),
    "string#x": ([None, "", "a", "b", "10"], [b"a", b"", b"b", b"10", b"9", 10]),
})
OPS = ["==", "!=", "<", "<=", ">", ">="]


def _filters(lits):
    fl = []
    for op in OPS:
        for l in lits:
            fl.append((op, l))
    for l in lits:
        fl.append(("in", [l]))
        fl.append(("not_in", [l]))
    for a, b in itertools.combinations(range(len(lits)), 2):
        fl.append(("in", [lits[a], lits[b]]))
        fl.append(("between", (lits[a], lits[b])))
    fl.append(("in", []))
    fl.append(("not_in", []))
    fl.append(("is_null", True))
    fl.append(("is_not_null", True))
    return fl


def plan(tier, seed):
    tasks = []
    for typ, (_vals, lits) in DOMAINS.items():
        fl = _filters(lits)
        nshard = 3 if typ in ("double", "long", "float") else 1
        for s in range(nshard):
            tasks.append({"kind": "exh", "type": typ, "shard": s, "nshard": nshard, "nfilters": len(fl)})
    n = 40 if tier == "quick" else 1200
    for s in range(16):
        tasks.append({"kind": "rand", "n": n, "seed": seed * 1000 + s, "tier": tier})
    nb = 120 if tier == "quick" else 1500
    for s in range(4):
        tasks.append({"kind": "bounds", "n": nb, "seed": seed * 1000 + 500 + s})
    return tasks


def _ms(rows):
    return rows_multiset(rows)


def _compare(table, flt, api, verify, columns=None, container=None):
    """returns (pruned_rows|exc, unpruned_rows|exc, nskipped)"""
    log = []
    try:
        with spy_pruning(log):
            a = run_read(table, api, flt, columns, verify, container=container)
    except Exception as e:  # noqa
        a = e
    try:
        with no_pruning():
            b = run_read(table, api, flt, columns, verify, container=container)
    except Exception as e:  # noqa
        b = e
    skipped = sum(len(t) - len(k) for t, k in log)
    return a, b, skipped


def _bucket(flt_cond, typ):
    op = flt_cond[0] if isinstance(flt_cond, tuple) else "=="
    opn = {**tbl.CMP_OPS, **tbl.IN_OPS, **tbl.NULL_OPS, "between": "between"}.get(str(op).lower(), str(op))
    nan = "nan-literal" if tbl.has_nan(flt_cond) else "plain"
    return f"prune-changes-answer/{opn}/{nan}"


def run_exhaustive(task):
    res = Result()
    typ = task["type"]
    vals, lits = DOMAINS[typ]
    fields = [{"id": 7, "name": "x", "type": typ.split("#")[0], "required": False}, {"id": 3, "name": "fid", "type": "long", "required": False}]
    msets = []
    for k in range(0, 4):
        msets.extend(itertools.combinations_with_replacement(range(len(vals)), k))
    with scratch_dir("c13e") as d:
        t = new_table(d + "/t", fields)
        for fid, ms in enumerate(msets):
            setup_append(t, [{"x": vals[i], "fid": fid} for i in ms])
        fl = _filters(lits)
        for idx, cond in enumerate(fl):
            if idx % task["nshard"] != task["shard"]:
                continue
            flt = {"x": cond}
            # value sets of in / not_in are also handed over as one-shot iterators (a generator through scan, an iterator through the
            # streaming API, which prunes before it compiles the row filter)
            runs = [("list", "scan")] + ([("gen", "scan"), ("iter", "batches_big")] if cond[0] in ("in", "not_in") and cond[1] else [])
            for cont, api in runs:
                a, b, skipped = _compare(t, flt, api, None, container=cont)
                key = f"{typ}|{jsonable(cond)}" + ("" if cont == "list" else f"|{cont}|{api}")
                res.case(key=key, nontrivial=skipped > 0, labels=[f"exh:{typ}", "skipped>0" if skipped else "skipped=0"] + ([f"in-container:{cont}"] if cont != "list" else []),
                         sample={"type": typ, "filter": flt, "files": len(msets), "skipped": skipped} if skipped and cont == "list" else None)
                if isinstance(a, Exception) or isinstance(b, Exception):
                    res.labels["raises"] += 1
                    if isinstance(a, Exception) != isinstance(b, Exception):
                        res.labels["raise-mismatch(not flagged)"] += 1
                    continue
                if _ms(a) != _ms(b):
                    lost = _ms(b) - _ms(a)
                    fids = sorted({dict(r)["fid"][1] for r in lost})[:3]
                    files = [[vals[i] for i in msets[f]] for f in fids]
                    res.violation(_bucket(cond, typ) + ("" if cont == "list" else "/one-shot-value-set"), f"type={typ} filter={flt!r} (value set as {cont}, via {api}): pruned scan lost {sum(lost.values())} row(s); e.g. files {files!r}",
                                  {"kind": "exh", "type": typ, "filter": flt, "files": files, "container": cont, "api": api})
    res.extra["exhaustive_subdomain"] = True
    return res


def _cross_variants(typ, v):
    """Other python spellings of (about) the same value that Arrow accepts for the column's type: pruning compares the literal
    with the bounds in Python, the row filter casts it to the column type - the two must not disagree."""
    import datetime as dt
    import decimal
    import struct

    out = []
    if typ in ("float", "double") and isinstance(v, float) and math.isfinite(v):
        out += [decimal.Decimal(repr(v)), float(f"{v:.7g}"), float(f"{v:.3g}")]
        try:
            out.append(struct.unpack("f", struct.pack("f", v))[0])
        except OverflowError:
            pass
        if v.is_integer():
            out += [int(v), int(v) + 1, decimal.Decimal(int(v))]
        out += [decimal.Decimal("0.1"), 0.1, 2**53 + 1, -(2**53) - 1, 16777217]
    elif typ in ("int", "long") and isinstance(v, int) and not isinstance(v, bool):
        out += [decimal.Decimal(v), decimal.Decimal(v) + decimal.Decimal("0.5"), v + 0.5, v - 0.5]
        if abs(v) <= 2**53:
            out.append(float(v))
        out += [float(2**53), float(2**63), 2**53 + 1]
    elif typ == "date" and isinstance(v, dt.date):
        out += [dt.datetime(v.year, v.month, v.day), dt.datetime(v.year, v.month, v.day, 12, 0), dt.datetime(v.year, v.month, v.day, 23, 59, 59, 999999), v.isoformat()]
    elif typ == "timestamp" and isinstance(v, dt.datetime):
        out += [v.date(), v.replace(microsecond=0), v.isoformat()]
    elif typ in ("string", "uuid") and isinstance(v, str):
        out += [v.encode("utf-8"), v + "\x00", v[:1]]
    elif typ == "time" and isinstance(v, dt.time):
        out += [v.replace(microsecond=0), v.isoformat()]
    elif typ == "boolean":
        out += [int(v), float(v)]
    return out


def _crossify(draw, cond, typ, pool):
    """Replace the literal(s) of a condition by cross-type spellings of data values."""
    cands = [x for v in (pool or []) if v is not None for x in _cross_variants(typ, v)]
    if not cands:
        return cond
    pick = lambda: draw(st.sampled_from(cands))
    if isinstance(cond, tuple) and len(cond) == 2:
        op = str(cond[0]).lower()
        if op in tbl.NULL_OPS:
            return cond
        if op in tbl.IN_OPS:
            return (cond[0], [pick() for _ in range(draw(st.integers(1, 3)))])
        if op == "between":
            return (cond[0], (pick(), pick()))
        return (cond[0], pick())
    return pick()


@st.composite
def rand_case(draw):
    types = ["int", "long", "float", "double", "date", "time", "timestamp", "string", "uuid", "boolean", "binary", "binary"]  # binary: a column type that gets NO bounds
    fields = draw(tbl.schema_fields(1, 3, types=types, allow_required=False))
    nfiles = draw(st.integers(2, 6))
    files = [draw(tbl.rows_for(fields, 0, 4, small=draw(st.booleans()))) for _ in range(nfiles)]
    allrows = [r for f in files for r in f]
    flt = draw(tbl.filter_for(fields, allrows, max_cols=2))
    cross = draw(st.integers(0, 3)) == 0
    if cross:
        # cross-type literals: Decimal / double spelling of a float32 value / int beyond 2^53 / datetime on a date column / bytes on a string column ...
        ftype = {f["name"]: f["type"] for f in fields}
        for col in list(flt):
            flt[col] = _crossify(draw, flt[col], ftype[col], [r.get(col) for r in allrows])
    api = draw(st.sampled_from(READ_APIS))
    verify = draw(st.sampled_from([None, False]))
    cols = draw(st.one_of(st.none(), st.lists(st.sampled_from([f["name"] for f in fields] + ["fid"]), min_size=1, max_size=2, unique=True)))
    return {"kind": "rand", "fields": fields, "files": files, "filter": flt, "api": api, "verify": verify, "columns": cols, "cross": cross, "one_txn": draw(st.integers(0, 2)) == 0 and any(files), "delete_one": draw(st.booleans()),
            # the handle that is read through: the creating one, a fresh load_table, or create_table() on the existing table with a schema that
            # DESCRIBES it (same names / types) but numbers its fields differently (another application's copy of the schema) - the persisted
            # schema stays authoritative, so the answers must not change; 'last_via' = the last file is appended through that handle
            "handle": draw(st.sampled_from(["same", "same", "load", "renumbered", "renumbered"])), "last_via": draw(st.booleans()),
            # container type of in / not_in value sets (one-shot iterators are rebuilt for every call)
            "container": draw(st.sampled_from(["list", "list", "list", "tuple", "set", "gen", "map", "iter", "dictkeys", "deque", "range"]))}


def _other_handle(path, fields, how):
    from ..common import SetupRejected

    try:
        if how == "load":
            return load(path)
        ids = [f["id"] for f in fields]
        ren = [dict(f, id=i) for f, i in zip(fields, reversed(ids))]
        return new_table(path, ren)
    except Exception as e:  # noqa
        raise SetupRejected(f"{type(e).__name__}: {e}") from e


def check_rand(case):
    out = {"violations": [], "labels": [f"api:{case['api']}"] + (["cross-type-literal"] if case.get("cross") else []), "nontrivial": False}
    fields = case["fields"] + [{"id": 99, "name": "fid", "type": "long", "required": False}]
    with scratch_dir("c13r") as d:
        t = new_table(d + "/t", fields)
        if case.get("one_txn"):
            # every file written by ONE transaction (several append_data calls, one commit): their statistics live side by
            # side in memory before the manifest is encoded
            from ..common import SetupRejected

            try:
                with t.new_transaction() as tx:
                    for fid, rows in enumerate(case["files"]):
                        if rows:
                            tx.append_data([dict(r, fid=fid) for r in rows])
                    tx.commit()
            except Exception as e:  # noqa
                raise SetupRejected(f"{type(e).__name__}: {e}") from e
            out["labels"].append("files-from-one-transaction")
            if case.get("delete_one") and sum(1 for rows in case["files"] if rows) >= 2:
                # a partial delete: the manifest that lists all the files is REWRITTEN with the survivors (their statistics are carried over)
                try:
                    dfs = sorted(t._get_all_data_files(), key=lambda df: df.file_path)
                    with t.new_transaction() as txd:
                        txd.delete_files([dfs[0].file_path])
                        txd.commit()
                    out["labels"].append("manifest-rewritten-by-partial-delete")
                except Exception as e:  # noqa
                    raise SetupRejected(f"{type(e).__name__}: {e}") from e
        else:
            nf = len(case["files"])
            for fid, rows in enumerate(case["files"]):
                if fid == nf - 1 and case.get("last_via") and case.get("handle", "same") != "same":
                    t = _other_handle(d + "/t", fields, case["handle"])
                setup_append(t, [dict(r, fid=fid) for r in rows])
        if case.get("handle", "same") != "same":
            t = _other_handle(d + "/t", fields, case["handle"])
            out["labels"].append(f"handle:{case['handle']}")
        flt = case["filter"]
        a, b, skipped = _compare(t, flt, case["api"], case["verify"], case["columns"], container=case.get("container"))
        if case.get("container") not in (None, "list") and any(isinstance(c_, tuple) and str(c_[0]).lower() in tbl.IN_OPS for c_ in flt.values()):
            out["labels"].append(f"in-container:{case['container']}")
        out["nontrivial"] = skipped > 0
        out["labels"].append("skipped>0" if skipped else "skipped=0")
        for f in case["fields"]:
            if f["name"] in flt:
                out["labels"].append(f"ftype:{f['type']}")
        if isinstance(a, Exception) or isinstance(b, Exception):
            out["labels"].append("raises")
            return out
        if _ms(a) != _ms(b):
            cond = next(iter(flt.values()))
            out["violations"].append((_bucket(cond, "rand"), f"filter={flt!r} api={case['api']}: pruned {len(a)} rows vs unpruned {len(b)} rows"))
    return out


def _true_minmax(vals):
    vs = [v for v in vals if v is not None]
    nn = [v for v in vs if not (isinstance(v, float) and math.isnan(v))]
    if nn:
        return min(nn), max(nn), False
    if vs:
        return NAN, NAN, True
    return None, None, False


@st.composite
def bounds_case(draw):
    fields = draw(tbl.schema_fields(1, 4, allow_required=False))
    rows = draw(tbl.rows_for(fields, 1, 6))
    if draw(st.integers(0, 7)) == 0:
        # a batch larger than any internal write/statistics batch: the extremes sit far from the start
        n = draw(st.sampled_from([1001, 1500, 2500, 3001]))
        seedrows = draw(tbl.rows_for(fields, 3, 6))
        pos = draw(st.lists(st.integers(0, n - 1), min_size=len(seedrows), max_size=len(seedrows)))
        filler = draw(tbl.rows_for(fields, 1, 1, null_p=False))[0]
        rows = [dict(filler) for _ in range(n)]
        for p_, r in zip(pos, seedrows):
            rows[p_] = r
    return {"kind": "bounds", "fields": fields, "rows": rows}


def check_bounds(case):
    out = {"violations": [], "labels": ["big-batch"] if len(case["rows"]) > 1000 else [], "nontrivial": True}
    import pyarrow as pa

    with scratch_dir("c13b") as d:
        t = new_table(d + "/t", case["fields"])
        setup_append(t, case["rows"])
        stored = t.scan()  # values as represented by the declared type
        view = read_view(DirFS(d + "/t"), rows=False)
        e = view["snapshots"][-1]["entries"][0]
        lib = t._get_all_data_files()[0]
        for f in case["fields"]:
            out["labels"].append(f"btype:{f['type']}")
            vals = [r[f["name"]] for r in stored]
            lo, hi, only_nan = _true_minmax(vals)
            for side, true, ind, libv in (("lower", lo, e["lower"].get(f["id"]), (lib.lower_bounds or {}).get(f["id"])),
                                          ("upper", hi, e["upper"].get(f["id"]), (lib.upper_bounds or {}).get(f["id"]))):
                if f["type"] in ("binary",):
                    continue
                if true is None:
                    if ind is not None:
                        out["violations"].append((f"bounds/{f['type']}/phantom", f"{side} bound {ind!r} for an all-null column"))
                    continue
                if isinstance(ind, Undecoded):
                    out["labels"].append("independent-decode-unavailable")
                    ind = libv  # unknown (internal) encoding: judge what the library's decoder - and so its pruner - sees
                if only_nan:
                    ok = ind is None or (isinstance(ind, float) and math.isnan(ind))
                    okl = libv is None or (isinstance(libv, float) and math.isnan(libv))
                else:
                    ok = ind is not None and type(ind) is type(true) and ind == true
                    okl = libv is not None and type(libv) is type(true) and libv == true
                if not ok or not okl:
                    out["violations"].append((f"bounds/{f['type']}/roundtrip",
                                              f"{side} bound of {f['type']} column: true {true!r}, manifest(independent) {ind!r}, library {libv!r}; {len(vals)} values, e.g. {vals[:6]!r}"))
    return out


def run_task(task):
    if task["kind"] == "exh":
        return run_exhaustive(task)
    res = Result()
    if task["kind"] == "rand":
        campaign(rand_case(), check_rand, task["n"], task["seed"], res, PROP, shrink=task.get("tier") == "thorough")
    else:
        campaign(bounds_case(), check_bounds, task["n"], task["seed"], res, PROP, shrink=False)
    return res


def replay(case):
    if case["kind"] == "exh":
        typ = case["type"]
        fields = [{"id": 7, "name": "x", "type": typ.split("#")[0], "required": False}, {"id": 3, "name": "fid", "type": "long", "required": False}]
        vios = []
        with scratch_dir("c13p") as d:
            t = new_table(d + "/t", fields)
            for fid, vals in enumerate(case["files"]):
                setup_append(t, [{"x": v, "fid": fid} for v in vals])
            flt = {k: (tuple(v) if isinstance(v, list) and len(v) == 2 and isinstance(v[0], str) else v) for k, v in case["filter"].items()}
            flt = {k: ((v[0], tuple(v[1])) if isinstance(v, tuple) and v[0] == "between" else v) for k, v in flt.items()}
            cont = case.get("container", "list")
            a, b, _ = _compare(t, flt, case.get("api", "scan"), None, container=cont)
            if not isinstance(a, Exception) and not isinstance(b, Exception) and _ms(a) != _ms(b):
                vios.append({"bucket": _bucket(next(iter(flt.values())), typ) + ("" if cont == "list" else "/one-shot-value-set"), "what": f"pruned {len(a)} vs unpruned {len(b)}"})
        return vios
    fix = lambda flt: {k: ((v[0], tuple(v[1]) if v[0] == "between" else v[1]) if isinstance(v, list) and len(v) == 2 and isinstance(v[0], str) else v) for k, v in flt.items()}
    if case["kind"] == "rand":
        case = dict(case, filter=fix(case["filter"]))
        o = check_rand(case)
    else:
        o = check_bounds(case)
    return [{"bucket": b, "what": w} for b, w in o["violations"]]
