"""C12 - Filters mean what SQL says, identically in every scan API.

Oracles: (1) plain-Python three-valued reference evaluator over the rows as stored (independent
parquet read); (2) differential between all read APIs / options; (3) malformed filters raise.
"""
from __future__ import annotations

import math

from hypothesis import strategies as st

from ..common import Result, scratch_dir
from ..hyp import campaign
from ..lib import READ_APIS, new_table, run_read, setup_append
from ..reader import DirFS, read_view, current_snapshot, rows_multiset
from .. import tbl

PROP = "C12"
LEVEL = "exploration"
RULE = ("Hypothesis: schema of 1-4 columns over all primitive types, 0-5 files of 0-6 rows (NULL, NaN, +-inf, "
        "duplicates, empty files), filter from the full operator/alias grammar (1-3 conjuncts, empty and "
        "NULL-containing sets, same-type / cross-numeric / incomparable literals), optional projection; each case "
        "runs 6 read APIs x verify_checksums {default,off} = 12 reads. Non-trivial: the filter splits the data "
        "(neither all nor no rows) or touches a NULL/NaN row. A second generator produces malformed filters. "
        "distinct = hash of (schema, files, filter, projection).")
ASSUMPTIONS = ["IEEE semantics for NaN in comparisons (NaN != x is true); the reference is silent (differential only) "
               "when NaN appears inside an in/not_in value set or the literal is of an incomparable type",
               "cross-type numeric literals (float literal on an integer column) may raise; if an API returns it must equal the by-value reference"]
REQUIRED_LABELS = {"quick": ["null-touch", "nan-touch", "splits"], "thorough": ["null-touch", "nan-touch", "splits"]}

COMBOS = [(api, v) for api in READ_APIS for v in (None, False)]


def _lit_kind(typ, v):
    """same | cross | incomparable relative to a column of type typ"""
    k = tbl._kind(v)
    colk = {"boolean": "bool", "int": "num", "long": "num", "float": "num", "double": "num", "string": "str", "uuid": "str",
            "binary": "bin", "date": "date", "timestamp": "ts", "time": "time"}[typ]
    if k != colk:
        return "incomparable"
    if colk == "num" and typ in ("int", "long") and isinstance(v, float):
        return "cross"
    if typ == "int" and isinstance(v, int) and not -(2**31) <= v < 2**31:
        return "cross"
    if isinstance(v, int) and not isinstance(v, bool) and not -(2**63) <= v < 2**63:
        return "incomparable"
    # an int literal on a float column is coerced through the column's float type: exact only up to 2^24 (float) / 2^53 (double)
    if typ in ("float", "double") and isinstance(v, int) and abs(v) > (2**24 if typ == "float" else 2**53):
        return "cross"
    return "same"


def _cond_literals(cond):
    if isinstance(cond, tuple) and len(cond) == 2:
        op, operand = cond
        opl = str(op).lower()
        if opl in tbl.NULL_OPS:
            return []
        if opl == "between":
            return list(operand)
        if opl in tbl.IN_OPS:
            return [x for x in operand if x is not None]
        return [operand]
    return [cond]


def _opname(cond):
    if isinstance(cond, tuple) and len(cond) == 2:
        o = str(cond[0]).lower()
        return {**tbl.CMP_OPS, **tbl.IN_OPS, **tbl.NULL_OPS, "between": "between"}.get(o, o)
    return "eq"


def _int_twin(cond):
    def tw(v):
        if isinstance(v, float) and v == v and abs(v) < 2**24 and v == int(v) and not (v == 0 and str(v).startswith("-")):
            return int(v)
        return v

    if isinstance(cond, tuple) and len(cond) == 2:
        op, operand = cond
        if isinstance(operand, (list, tuple)):
            return (op, type(operand)(tw(x) for x in operand))
        return (op, tw(operand))
    return tw(cond)


@st.composite
def other_literal(draw, typ):
    """A literal of a different kind than the column (cross-numeric or incomparable)."""
    cands = [st.sampled_from([1, 0, 2**40]), st.sampled_from([0.5, 1.0, 2.0]), st.sampled_from(["a", "1"]), st.booleans()]
    return draw(st.one_of(*cands))


@st.composite
def case_strategy(draw):
    fields = draw(tbl.schema_fields(1, 4, allow_required=False))
    nfiles = draw(st.integers(0, 5))
    small = draw(st.booleans())
    files = [draw(tbl.rows_for(fields, 0, 6, small=small)) for _ in range(nfiles)]
    rows = [r for f in files for r in f]
    ncond = draw(st.integers(1, min(3, len(fields))))
    cols = draw(st.lists(st.sampled_from(fields), min_size=ncond, max_size=ncond, unique_by=lambda f: f["name"]))
    flt = {}
    for f in cols:
        vals = [r.get(f["name"]) for r in rows]
        if draw(st.integers(0, 9)) == 0:
            op = draw(st.sampled_from(["==", "!=", "<", ">=", "in", "not_in"]))
            lit = draw(other_literal(f["type"]))
            flt[f["name"]] = (op, [lit] if op in ("in", "not_in") else lit)
        else:
            flt[f["name"]] = draw(tbl.condition_for(f["type"], vals))
            if f["type"] in ("float", "double") and draw(st.booleans()):
                # the same number written as an int literal (score != 5 on a double column): must select exactly what 5.0 selects
                flt[f["name"]] = _int_twin(flt[f["name"]])
    fl = [f for f in fields if f["type"] in ("float", "double")]
    if fl and files and draw(st.integers(0, 5)) == 0:
        # a file whose float column holds ONE distinct number plus NaN / NULL rows (its min/max statistics collapse to that number and are
        # blind to the NaN), filtered by that very number: statistics-based skipping of the file or row group must not lose the NaN row
        f = draw(st.sampled_from(fl))
        v = float(draw(st.sampled_from([5, 0, 1, -3, 1000])))
        fi = draw(st.integers(0, len(files) - 1))
        shape = draw(st.lists(st.sampled_from(["v", "nan", "null"]), min_size=0, max_size=3))
        rows_f = list(files[fi])
        while len(rows_f) < 2 + len(shape):
            rows_f.append(dict(draw(tbl.rows_for(fields, 1, 1, small=True))[0]))
        for r_, kind in zip(rows_f, ["v", "nan"] + shape):
            r_[f["name"]] = {"v": v, "nan": float("nan"), "null": None}[kind]
        for r_ in rows_f[2 + len(shape):]:
            r_[f["name"]] = draw(st.sampled_from([v, None, float("nan")]))
        files[fi] = rows_f
        lit = int(v) if draw(st.booleans()) else v
        op = draw(st.sampled_from(["!=", "not_in", "==", "in", "<", ">=", "<=", ">"]))
        flt = dict(flt)
        flt[f["name"]] = (op, [lit] + ([None] if draw(st.booleans()) else []) if op in ("in", "not_in") else lit)
    names = [f["name"] for f in fields]
    cols_proj = draw(st.one_of(st.none(), st.lists(st.sampled_from(names), min_size=1, max_size=len(names), unique=True)))
    # a second, different scan that OVERLAPS the first on the same handle (two lazy generators consumed alternately)
    f2 = draw(st.sampled_from(fields))
    flt2 = draw(st.one_of(st.none(), tbl.condition_for(f2["type"], [r.get(f2["name"]) for r in rows]).map(lambda c: {f2["name"]: c})))
    # the container type in which in / not_in value sets are handed over (the reference always sees the list)
    from ..lib import CONTAINERS

    return {"kind": "filter", "fields": fields, "files": files, "filter": flt, "columns": cols_proj, "filter2": flt2,
            "container": draw(st.sampled_from(["list", "list", "list"] + CONTAINERS))}


def check_case(case):
    out = {"violations": [], "labels": [], "nontrivial": False}
    fields, flt, columns = case["fields"], case["filter"], case["columns"]
    ftype = {f["name"]: f["type"] for f in fields}
    with scratch_dir("c12") as d:
        t = new_table(d + "/t", fields)
        for rows in case["files"]:
            setup_append(t, rows)
        stored = []
        if case["files"]:
            snap = current_snapshot(read_view(DirFS(d + "/t")))
            for p in snap["files"]:
                stored.extend(snap["rows_by_file"][p])
        # classify literals
        kinds = set()
        for col, cond in flt.items():
            for lit in _cond_literals(cond):
                k = _lit_kind(ftype[col], lit)
                # is_in casts the COLUMN to the value set's type: an int set on a float column is cross-type
                if k == "same" and _opname(cond) in ("in", "not_in") and ftype[col] in ("float", "double") and isinstance(lit, int):
                    k = "cross"
                kinds.add(k)
        klass = "incomparable" if "incomparable" in kinds else ("cross" if "cross" in kinds else "same")
        out["labels"].append(f"lit:{klass}")
        ops = sorted({_opname(c) for c in flt.values()})
        for o in ops:
            out["labels"].append(f"op:{o}")
        # reference
        ref = None
        silent = None
        try:
            ref = rows_multiset(tbl.reference_scan(stored, flt, columns))
        except tbl.NaNInSet:
            silent = "nan-in-set"
        except tbl.Incomparable:
            silent = "incomparable"
        if klass == "incomparable" and silent is None and ref is not None and stored:
            silent = "incomparable"
        if silent:
            out["labels"].append(f"ref-silent:{silent}")
        # nontrivial
        touched_null = any(r.get(c) is None for r in stored for c in flt)
        touched_nan = any(isinstance(r.get(c), float) and math.isnan(r.get(c)) for r in stored for c in flt)
        if touched_null:
            out["labels"].append("null-touch")
        if touched_nan:
            out["labels"].append("nan-touch")
        splits = False
        if ref is not None and silent is None:
            n = sum(ref.values())
            splits = 0 < n < len(stored)
            if splits:
                out["labels"].append("splits")
        out["nontrivial"] = bool(stored) and (splits or touched_null or touched_nan)
        results = {}
        for api, v in COMBOS:
            try:
                results[(api, v)] = rows_multiset(run_read(t, api, flt, columns, v, container=case.get("container")))
            except Exception as e:  # noqa
                results[(api, v)] = e
        if case.get("container") not in (None, "list") and any(isinstance(c_, tuple) and str(c_[0]).lower() in tbl.IN_OPS for c_ in flt.values()):
            out["labels"].append(f"in-container:{case['container']}")
        returned = {k: r for k, r in results.items() if not isinstance(r, Exception)}
        raised = {k: r for k, r in results.items() if isinstance(r, Exception)}
        tag = "nan" if (touched_nan or tbl.has_nan(list(flt.values()))) else ("null" if touched_null else "plain")
        opn = "+".join(ops)
        if raised:
            out["labels"].append("some-raise")
        # (2) differential among returned
        distinct = {}
        for k, r in returned.items():
            distinct.setdefault(tuple(sorted(r.items())), []).append(k)
        if len(distinct) > 1:
            groups = sorted(distinct.values(), key=len)
            out["violations"].append((f"api-disagree/{opn}/{tag}",
                                      f"filter={flt!r} columns={columns!r}: read APIs disagree; minority {groups[0]!r} vs {groups[-1][:3]!r}"))
        # (4) metamorphic set laws (hold under ANY consistent equality, so they also apply where the reference is silent, e.g. NaN in the set):
        #     x in [a, b]  ==  (x in [a]) union (x in [b])        x not_in [a, b]  ==  (x not_in [a]) intersect (x not_in [b])
        for col, cond in flt.items():
            if len(flt) != 1 or not (isinstance(cond, tuple) and len(cond) == 2 and _opname(cond) in ("in", "not_in")):
                continue
            vals = [x for x in cond[1] if x is not None]
            if len(vals) < 2 or klass != "same":
                continue
            out["labels"].append("set-law")
            try:
                whole = rows_multiset(run_read(t, "scan", {col: (cond[0], vals)}, None, None))
                parts = [rows_multiset(run_read(t, "scan", {col: (cond[0], [x])}, None, None)) for x in vals]
            except Exception:
                continue
            if _opname(cond) == "in":
                import functools

                combined = functools.reduce(lambda a, b: a | b, parts)
            else:
                import functools

                combined = functools.reduce(lambda a, b: a & b, parts)
            if whole != combined:
                out["violations"].append((f"set-law/{_opname(cond)}/{tag}", f"column {col}: {cond[0]} {vals!r} returns {sum(whole.values())} rows but combining the single-value filters gives {sum(combined.values())}"))
        # (5) the filter belongs to the scan, not to the handle: two lazy scans consumed alternately on ONE handle
        #     each return what they return when run alone
        if "filter2" in case and len(case["files"]) >= 2:
            flt2 = case["filter2"]
            try:
                solo1 = rows_multiset(run_read(t, "batches1", flt, columns, None))
                solo2 = rows_multiset(run_read(t, "iter_records", flt2, None, None))
            except Exception:
                solo1 = None
            if solo1 is not None:
                out["labels"].append("overlapping-scans")
                try:
                    g1 = t.scan_batches(batch_size=1, filter=flt, columns=columns)
                    g2 = t.iter_records(filter=flt2)
                    got1, got2, live = [], [], [True, True]
                    while any(live):
                        if live[0]:
                            try:
                                got1.extend(next(g1))
                            except StopIteration:
                                live[0] = False
                        if live[1]:
                            try:
                                got2.append(next(g2))
                            except StopIteration:
                                live[1] = False
                    if rows_multiset(got1) != solo1 or rows_multiset(got2) != solo2:
                        out["violations"].append((f"overlapping-scans-interfere/{opn}", f"scan_batches(filter={flt!r}) and iter_records(filter={flt2!r}) consumed alternately on one handle returned "
                                                  f"{len(got1)}/{len(got2)} rows, alone they return {sum(solo1.values())}/{sum(solo2.values())}"))
                except Exception as e:  # noqa
                    out["violations"].append((f"overlapping-scans-raise/{type(e).__name__}", f"alternating two scans on one handle raised {type(e).__name__}: {str(e)[:120]} (filters {flt!r} / {flt2!r})"))
        # (1) reference
        if silent is None and ref is not None:
            for k, r in returned.items():
                if r != ref:
                    out["violations"].append((f"wrong-rows/{opn}/{tag}",
                                              f"filter={flt!r} columns={columns!r} via {k}: got {sum(r.values())} rows, reference {sum(ref.values())}; extra={list((r - ref).items())[:2]!r} missing={list((ref - r).items())[:2]!r}"))
                    break
            if klass == "same" and raised:
                k, e = next(iter(raised.items()))
                out["violations"].append((f"raises/{opn}/{type(e).__name__}", f"well-formed same-type filter={flt!r} raised via {k}: {type(e).__name__}: {str(e)[:120]}"))
    return out


# ---------------- malformed filters ----------------
@st.composite
def malformed_strategy(draw):
    fields = draw(tbl.schema_fields(1, 3, types=["long", "double", "string", "boolean", "date"], allow_required=False))
    rows = draw(tbl.rows_for(fields, 1, 4, small=True))
    f = draw(st.sampled_from(fields))
    lit = draw(tbl.value_strategy(f["type"], small=True))
    k = draw(st.sampled_from(["unknown-op", "none", "unknown-column", "arity3", "arity1", "nonstring-op", "between-scalar", "between-3", "in-scalar", "typo-op"]))
    col = f["name"]
    if k == "unknown-op":
        cond = (draw(st.sampled_from(["like", "startswith", "=>", "=<", "===", "!", "is", "not", "contains", ""])), lit)
    elif k == "typo-op":
        cond = (draw(st.sampled_from(["gte", "lte", "neq", "equals", "not-in", "in_", "isnul", "betwen"])), lit)
    elif k == "none":
        cond = None
    elif k == "unknown-column":
        col, cond = "no_such_col", draw(st.sampled_from([1, ("==", 1), ("is_null", True), ("in", [1])]))
    elif k == "arity3":
        cond = ("<", lit, lit)
    elif k == "arity1":
        cond = ("<",)
    elif k == "nonstring-op":
        cond = (draw(st.sampled_from([5, None, 1.5])), lit)
    elif k == "between-scalar":
        cond = ("between", lit)
        if isinstance(lit, str) and len(lit) == 2:  # a 2-char string unpacks into (lo, hi): well-formed by accident
            cond = ("between", 7)
    elif k == "between-3":
        cond = ("between", (lit, lit, lit))
    else:
        cond = ("in", 7 if not isinstance(lit, (int, float)) else 7)
    flt = {col: cond}
    if draw(st.booleans()) and len(fields) > 1:
        g = [x for x in fields if x["name"] != col]
        if g:
            flt[g[0]["name"]] = ("is_not_null", True)
    return {"kind": "malformed", "klass": k, "fields": fields, "rows": rows, "filter": flt}


def check_malformed(case):
    out = {"violations": [], "labels": [f"malformed:{case['klass']}"], "nontrivial": True}
    with scratch_dir("c12m") as d:
        t = new_table(d + "/t", case["fields"])
        setup_append(t, case["rows"])
        for api, v in COMBOS:
            try:
                r = run_read(t, api, case["filter"], None, v)
            except Exception:
                continue
            out["violations"].append((f"malformed-accepted/{case['klass']}", f"malformed filter {case['filter']!r} did not raise via {(api, v)}: returned {len(r)} rows"))
            break
    return out


def run_setlaws(task):
    """Exhaustive small domain: one double column holding {NaN, 0.0, -0.0, 1.0, 2.5, NULL} spread over 3 files; every in / not_in value set of size
    1-3 over {NaN, 0.0, -0.0, 1.0, 2.0, NULL}: all read APIs agree, and the union / intersection laws hold against the single-value filters."""
    import functools
    import itertools

    res = Result()
    nan = float("nan")
    fields = [{"id": 4, "name": "x", "type": task["type"], "required": False}, {"id": 9, "name": "rid", "type": "long", "required": False}]
    data = [[nan, 0.0, 1.0], [None, -0.0, nan], [2.5, 1.0, None]]
    cand = [nan, 0.0, -0.0, 1.0, 2.0, None]
    with scratch_dir("c12s") as d:
        t = new_table(d + "/t", fields)
        rid = 0
        for f in data:
            rows = []
            for v in f:
                rid += 1
                rows.append({"x": v, "rid": rid})
            setup_append(t, rows)
        single = {}
        for op in ("in", "not_in"):
            for i, v in enumerate(cand):
                single[(op, i)] = rows_multiset(run_read(t, "scan", {"x": (op, [v])}, None, None))
        for op in ("in", "not_in"):
            for k in (1, 2, 3):
                for combo in itertools.combinations(range(len(cand)), k):
                    vals = [cand[i] for i in combo]
                    flt = {"x": (op, vals)}
                    case = {"kind": "setlaw", "type": task["type"], "op": op, "set": vals}
                    results = {}
                    for api, ver in COMBOS:
                        try:
                            results[(api, ver)] = rows_multiset(run_read(t, api, flt, None, ver))
                        except Exception as e:  # noqa
                            results[(api, ver)] = ("raise", type(e).__name__)
                    distinct = {repr(sorted(r.items())) if not isinstance(r, tuple) else repr(r) for r in results.values()}
                    res.case(key=f"{task['type']}|{op}|{jsonable_key(vals)}", nontrivial=True, labels=["set-law", "set-law-exhaustive"], sample=case if k == 2 and combo[0] == 0 else None)
                    if len(distinct) > 1:
                        res.violation(f"api-disagree/{op}/setlaw", f"{op} {vals!r}: read APIs disagree", case)
                        continue
                    whole = results[("scan", None)]
                    if isinstance(whole, tuple):
                        res.violation(f"raises/{op}/setlaw", f"{op} {vals!r} raised {whole[1]}", case)
                        continue
                    parts = [single[(op, i)] for i in combo]
                    combined = functools.reduce((lambda a, b: a | b) if op == "in" else (lambda a, b: a & b), parts)
                    if whole != combined:
                        res.violation(f"set-law/{op}/nan" if any(isinstance(v, float) and v != v for v in vals) else f"set-law/{op}/plain",
                                      f"{task['type']} column: {op} {vals!r} returns rids {sorted(dict(r)['rid'][1] for r in whole)} but combining the single-value filters gives {sorted(dict(r)['rid'][1] for r in combined)}", case)
    res.extra["exhaustive_setlaw_domain"] = True
    return res


def jsonable_key(vals):
    return "|".join("nan" if isinstance(v, float) and v != v else repr(v) for v in vals)


def plan(tier, seed):
    n = 300 if tier == "quick" else 4000
    m = 100 if tier == "quick" else 1000
    tasks = [{"kind": "filter", "n": n, "seed": seed * 1000 + s, "tier": tier} for s in range(16)]
    tasks += [{"kind": "malformed", "n": m, "seed": seed * 1000 + 100 + s, "tier": tier} for s in range(4)]
    tasks += [{"kind": "setlaws", "type": "double"}, {"kind": "setlaws", "type": "float"}]
    return tasks


def run_task(task):
    if task["kind"] == "setlaws":
        return run_setlaws(task)
    res = Result()
    shrink = task.get("tier") == "thorough"
    if task["kind"] == "filter":
        campaign(case_strategy(), check_case, task["n"], task["seed"], res, PROP, shrink=shrink)
    else:
        campaign(malformed_strategy(), check_malformed, task["n"], task["seed"], res, PROP, shrink=shrink)
    return res


def _fix_filter(flt):
    out = {}
    for k, v in flt.items():
        if isinstance(v, list) and len(v) == 2 and (isinstance(v[0], str) or v[0] is None or isinstance(v[0], (int, float))) and not isinstance(v[0], bool):
            op, operand = v
            if str(op).lower() == "between" and isinstance(operand, list):
                operand = tuple(operand)
            out[k] = (op, operand)
        elif isinstance(v, list):
            out[k] = tuple(v)
        else:
            out[k] = v
    return out


def replay(case):
    if case.get("kind") == "setlaw":
        r = run_setlaws({"type": case["type"]})
        seen, out = set(), []
        for v in r.violations:
            if v["bucket"] not in seen:
                seen.add(v["bucket"])
                out.append({"bucket": v["bucket"], "what": v["what"]})
        return out
    case = dict(case, filter=_fix_filter(case["filter"]))
    if case.get("filter2"):
        case["filter2"] = _fix_filter(case["filter2"])
    o = check_case(case) if case["kind"] == "filter" else check_malformed(case)
    return [{"bucket": b, "what": w} for b, w in o["violations"]]
