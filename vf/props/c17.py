"""C17 - No operation escapes the table root."""
from __future__ import annotations

import hashlib
import io
import itertools
import json
import os
import sys

import fastavro
from hypothesis import strategies as st

from ..common import Result, scratch_dir
from ..hist import FIELDS
from ..hyp import campaign
from ..reader import HINT, read_view, current_snapshot, norm
from ..tbl import make_schema

PROP = "C17"
LEVEL = "exploration"
RULE = ("Path strings from a grammar ('..', '.', empty, names, 'data', 'metadata', a sibling whose name extends the root's name, symlink components pointing "
        "inside/outside, unicode; prefixes none / '/' / absolute path into the sentinel tree; doubled slashes) - exhaustive up to depth 3, Hypothesis-sampled at "
        "depth 4-5 - x 20 entry points (every public LocalStorageBackend method, create_lock+acquire, DataFileManager read/open/write, append_files / "
        "delete_files, and tampered manifest entries, manifest-list references, marker payloads followed by scan / scan_batches / garbage_collect / "
        "verify_integrity) x table root reached directly or through a symlink, with symlinks planted inside the root. The root sits 5 levels deep next to "
        "a sentinel tree and a sibling 'root2'. Oracle: (1) sentinel fingerprint (names, contents, mtimes, link targets) unchanged; (2) a process-wide audit "
        "hook records open/listdir/scandir/remove/rename/mkdir/rmdir/utime/truncate/symlink/link: any event on a path inside the base but outside the canonical "
        "root is a violation; paths handed to the native parquet reader/writer are recorded the same way; (3) a path whose canonical resolution leaves the "
        "root must raise. Object storage: a table at key prefix 'warehouse/t1/' next to sibling objects (t10, t1x, bucket root); the same path grammar to depth 3 "
        "(thorough 4) x 17 entry points, every request the fake S3 receives must carry a key that literally starts with the table's prefix. Non-trivial: the path, resolved naively, lands in the sentinel tree / sibling. distinct = (entry point, path).")
ASSUMPTIONS = ["stat/lstat/readlink are existence probes and are not flagged (the statement speaks of reading content, writing, deleting, renaming, listing)",
               "native (pyarrow) opens are observed through the path arguments passed to pyarrow.parquet from the library's modules, not through ptrace"]
REQUIRED_LABELS = {"quick": ["escaping", "tampered", "via-symlink-root"], "thorough": ["escaping", "tampered"]}

# ---------------------------------------------------------------------------------------------
_MON = {"base": None, "root": None, "events": [], "on": False}
_AUDIT = {"open", "os.listdir", "os.scandir", "os.remove", "os.rename", "os.mkdir", "os.rmdir", "os.utime", "os.truncate", "os.symlink", "os.link", "os.chmod"}
_installed = [False]


def _hook(event, args):
    if not _MON["on"] or event not in _AUDIT:
        return
    try:
        npaths = 2 if event in ("os.rename", "os.symlink", "os.link") else 1  # open's second argument is the MODE, not a path
        paths = [a for a in args[:npaths] if isinstance(a, (str, bytes))]
        for p in paths:
            if isinstance(p, bytes):
                p = p.decode("utf-8", "replace")
            if not os.path.isabs(p):
                p = os.path.join(os.getcwd(), p)
            _MON["on"] = False
            try:
                rp = os.path.realpath(p)
            finally:
                _MON["on"] = True
            base, root = _MON["base"], _MON["root"]
            if rp.startswith(base + os.sep) and not (rp == root or rp.startswith(root + os.sep)):
                if event == "os.mkdir" and os.path.isdir(rp):
                    continue  # mkdir of an existing directory has no effect
                if event == "open" and os.path.isdir(rp):
                    continue  # a descriptor on a directory (for fsync) reads no content and lists nothing
                _MON["events"].append((event, rp[len(base) + 1:]))
    except Exception:
        pass


def install_hook():
    if not _installed[0]:
        sys.addaudithook(_hook)
        _installed[0] = True


class Layout:
    """base/{outside/..., a/b/c/d/root2/..., a/b/c/d/root (table), lnk -> root}"""

    def __init__(self, d, via_symlink):
        import pyarrow as pa
        import pyarrow.parquet as pq
        import datashard

        self.base = os.path.realpath(d)
        self.parent = os.path.join(self.base, "a", "b", "c", "d")
        self.root = os.path.join(self.parent, "root")
        os.makedirs(self.parent)
        out = os.path.join(self.base, "outside")
        os.makedirs(os.path.join(out, "dir"))
        os.makedirs(os.path.join(out, "data"))
        os.makedirs(os.path.join(out, "metadata"))
        with open(os.path.join(out, "secret.txt"), "w") as f:
            f.write("SECRET")
        with open(os.path.join(out, "dir", "inner.json"), "w") as f:
            f.write('{"secret": 1}')
        tb = pa.Table.from_pylist([{"k": 666, "s": "EVIL"}], schema=pa.schema([("k", pa.int64()), ("s", pa.string())]))
        pq.write_table(tb, os.path.join(out, "evil.parquet"))
        pq.write_table(tb, os.path.join(out, "data", "x.parquet"))
        sib = os.path.join(self.parent, "root2")
        os.makedirs(os.path.join(sib, "data"))
        pq.write_table(tb, os.path.join(sib, "data", "x.parquet"))
        with open(os.path.join(sib, "secret.txt"), "w") as f:
            f.write("SIBLING")
        self.location = self.root
        self.t = datashard.create_table(self.root, make_schema(FIELDS))
        self.t.append_records([{"k": 1, "s": "a"}])
        self.t.append_records([{"k": 2, "s": "b"}])
        # a valid manifest list / manifest outside, for tampered references
        v = read_view(_fs(self.root), rows=False)
        cur = current_snapshot(v)
        for name, src in (("evil_mlist.avro", norm(cur["manifest_list"])), ("evil_manifest.avro", cur["manifests"][0])):
            with open(os.path.join(self.root, src), "rb") as f, open(os.path.join(out, name), "wb") as g:
                g.write(f.read())
        # symlinks planted inside the root
        os.symlink(out, os.path.join(self.root, "data", "out_link"))
        os.symlink(os.path.join(out, "evil.parquet"), os.path.join(self.root, "data", "file_link.parquet"))
        os.symlink(os.path.join(self.root, "data"), os.path.join(self.root, "in_link"))
        os.symlink("../../../../../../outside", os.path.join(self.root, "metadata", "rel_out"))
        if via_symlink == "dotdot":
            # the root spelled through a symlinked directory followed by '..': the OS resolves '<base>/hop/../root' to the table
            # (hop -> .../d/root2, '..' -> .../d), while collapsing the '..' lexically would give '<base>/root' - somewhere else entirely
            hop = os.path.join(self.base, "hop")
            os.symlink(os.path.join(self.parent, "root2"), hop)
            self.location = os.path.join(self.base, "hop", "..", "root")
            assert os.path.realpath(self.location) == os.path.realpath(self.root)
            # opened the way an application opens 'its' table (create-or-open): it exists, so nothing may be created anywhere
            self.t = datashard.create_table(self.location, make_schema(FIELDS))
            self.misplaced = sorted(os.listdir(os.path.join(self.base, "root"))) if os.path.lexists(os.path.join(self.base, "root")) else None
        elif via_symlink:
            lnk = os.path.join(self.base, "lnk")
            os.symlink(self.root, lnk)
            self.location = lnk
            self.t = datashard.load_table(lnk)
        self.canon = os.path.realpath(self.root)
        self.fp = self.fingerprint()

    def fingerprint(self):
        h = []
        for top in (os.path.join(self.base, "outside"), os.path.join(self.parent, "root2")):
            for r, ds, fs in os.walk(top):
                ds.sort()
                for n in sorted(ds) + sorted(fs):
                    p = os.path.join(r, n)
                    st_ = os.lstat(p)
                    item = [os.path.relpath(p, self.base), st_.st_mode, st_.st_mtime_ns]
                    if os.path.islink(p):
                        item.append(os.readlink(p))
                    elif os.path.isfile(p):
                        with open(p, "rb") as f:
                            item.append(hashlib.sha1(f.read()).hexdigest())
                    h.append(tuple(item))
        h.append(tuple(sorted(os.listdir(self.base))))
        return h

    def escaping(self, path):
        """Does the canonical resolution of `path` (table-relative, leading '/' stripped) leave the canonical root?"""
        rp = os.path.realpath(os.path.join(self.canon, path.lstrip("/")))
        return not (rp == self.canon or rp.startswith(self.canon + os.sep))

    def naive_hits_sentinel(self, path):
        for cand in (os.path.normpath(os.path.join(self.root, path.lstrip("/"))), os.path.realpath(os.path.join(self.root, path.lstrip("/"))),
                     os.path.normpath(path) if os.path.isabs(path) else None):
            if cand and (cand.startswith(os.path.join(self.base, "outside")) or cand.startswith(os.path.join(self.parent, "root2"))):
                return True
        return False


def _fs(root):
    from ..reader import DirFS

    return DirFS(root)


# ---------------------------------------------------------------------------------------------
STORAGE_EPS = ["read_file", "read_json", "open_file", "open_seekable", "write_file", "write_json", "exists", "list_files", "delete_file", "makedirs",
               "get_size", "get_modified_time", "create_lock"]
DFM_EPS = ["dfm.read_data_file", "dfm.open_parquet_source", "dfm.write_data_file", "dfm._get_arrow_path", "table._resolve_file_path", "dfm.write_data_file:fault", "tx.append_files", "tx.delete_files"]


def call_ep(L, ep, path):
    import datashard
    from datashard import DataFile, FileFormat

    s = L.t.storage
    if ep == "read_file":
        return s.read_file(path)
    if ep == "read_json":
        return s.read_json(path)
    if ep == "open_file":
        with s.open_file(path) as f:
            return f.read()
    if ep == "open_seekable":
        f = s.open_seekable(path)
        try:
            return f.read()
        finally:
            f.close()
    if ep == "write_file":
        return s.write_file(path, b"x")
    if ep == "write_json":
        return s.write_json(path, {"a": 1})
    if ep == "exists":
        return s.exists(path)
    if ep == "list_files":
        return s.list_files(path)
    if ep == "delete_file":
        return s.delete_file(path)
    if ep == "makedirs":
        return s.makedirs(path, exist_ok=True)
    if ep == "get_size":
        return s.get_size(path)
    if ep == "get_modified_time":
        return s.get_modified_time(path)
    if ep == "create_lock":
        lk = s.create_lock(path, timeout=0.02)
        lk.acquire()
        lk.release()
        return None
    dfm = L.t.file_manager.data_file_manager
    if ep == "dfm.read_data_file":
        return dfm.read_data_file(path)
    if ep == "dfm.open_parquet_source":
        f = dfm.open_parquet_source(path)
        try:
            return f.read()
        finally:
            f.close()
    if ep == "dfm.write_data_file":
        return dfm.write_data_file(path, [{"k": 9, "s": "w"}], make_schema(FIELDS))
    if ep == "dfm.write_data_file:fault":
        # the write fails half-way (disk full) while the process's working directory is the SIBLING table, whose files have the
        # same table-relative names: whatever the library cleans up must be addressed through the resolved path
        import datashard.data_operations as DO

        orig = DO.DataFileWriter.write_records

        def boom(self, *a, **k):
            raise OSError(28, "injected: no space left on device")

        cwd = os.getcwd()
        DO.DataFileWriter.write_records = boom
        os.chdir(os.path.join(L.parent, "root2"))
        try:
            return dfm.write_data_file(path, [{"k": 9, "s": "w"}], make_schema(FIELDS))
        finally:
            os.chdir(cwd)
            DO.DataFileWriter.write_records = orig
    if ep == "dfm._get_arrow_path":
        return dfm._get_arrow_path(path)
    if ep == "table._resolve_file_path":
        return L.t._resolve_file_path(path)
    if ep == "tx.append_files":
        df = DataFile(file_path=path, file_format=FileFormat.PARQUET, partition_values={}, record_count=1, file_size_in_bytes=10)
        t2 = datashard.load_table(L.location)
        t2.append_data([df])
        rows = t2.scan()
        return rows
    if ep == "tx.delete_files":
        t2 = datashard.load_table(L.location)
        with t2.new_transaction() as tx:
            tx.delete_files([path])
            tx.commit()
        return None
    raise ValueError(ep)


def monitored(L, fn):
    """Run fn under the access monitor; returns (outcome, value/exception, outside events)."""
    _MON.update(base=L.base, root=L.canon, events=[], on=True)
    natives = []
    import datashard.data_operations as DO
    import datashard.transaction as TX
    import pyarrow.parquet as pq
    from ..steps import ModProxy

    def rec(x):
        if isinstance(x, (str, bytes, os.PathLike)):
            p = os.path.realpath(os.fspath(x))
            if p.startswith(L.base + os.sep) and not (p == L.canon or p.startswith(L.canon + os.sep)):
                natives.append(("native-parquet", p[len(L.base) + 1:]))

    def wrap(f):
        def g(where, *a, **kw):
            rec(where)
            return f(where, *a, **kw)

        return g

    class PW(pq.ParquetWriter):
        def __init__(self, where, *a, **kw):
            rec(where)
            super().__init__(where, *a, **kw)

    class PF(pq.ParquetFile):
        def __init__(self, source, *a, **kw):
            rec(source)
            super().__init__(source, *a, **kw)

    proxy = ModProxy(pq, {"ParquetWriter": PW, "ParquetFile": PF, "read_table": wrap(pq.read_table)})
    old = DO.pq
    DO.pq = proxy
    try:
        try:
            val = fn()
            out = ("ok", val)
        except BaseException as e:  # noqa
            out = ("raise", e)
    finally:
        DO.pq = old
        _MON["on"] = False
    return out[0], out[1], list(_MON["events"]) + natives


COMPONENTS = ["..", ".", "", "data", "metadata", "out_link", "file_link.parquet", "in_link", "rel_out", "secret.txt", "evil.parquet", "x.parquet", "root2", "é", "dir"]
SHORT = ["..", ".", "data", "metadata", "out_link", "rel_out", "secret.txt", "evil.parquet", "root2"]


def gen_paths(L, depth, comps):
    out = []
    for dpt in range(1, depth + 1):
        for combo in itertools.product(comps, repeat=dpt):
            rel = "/".join(combo)
            out.append(rel)
            out.append("/" + rel)
    out += [os.path.join(L.base, "outside", "secret.txt"), os.path.join(L.base, "outside", "evil.parquet"), os.path.join(L.parent, "root2", "data", "x.parquet"),
            os.path.join(L.base, "outside"), L.root + "2/data/x.parquet", L.root + "/../root2/secret.txt", "data//../..//root2/secret.txt", "/data/../../root2/data/x.parquet",
            "/metadata/../../../../../../outside/evil.parquet", L.root + "/data/out_link/secret.txt"]
    return out


def judge(L, res, ep, path, outcome, val, events, case):
    esc = L.escaping(path) if isinstance(path, str) else False
    if events:
        res.violation(f"outside-access/{ep}/{events[0][0]}", f"{ep}({path!r}) touched {events[:3]} outside the table root (root via {'symlink' if L.location != L.root else 'direct path'})", case)
        return
    # (3) applies to entry points that RESOLVE the path; delete_files only compares it with manifest entries as a string
    if esc and outcome == "ok" and ep != "tx.delete_files":
        res.violation(f"escape-accepted/{ep}", f"{ep}({path!r}) resolves outside the table root but returned {str(val)[:60]!r} instead of raising", case)


def run_paths(task):
    res = Result()
    install_hook()
    with scratch_dir("c17") as d:
        L = Layout(d, task["via_symlink"])
        if getattr(L, "misplaced", None) is not None:
            res.case(key="root-spelling|create_table", nontrivial=True, labels=["escaping", "root-spelling"])
            res.violation("outside-access/root-spelling/create_table", f"create_table({'<base>/hop/../root'!r}) (hop -> a sibling directory: the OS resolves the path to the existing table) created {L.misplaced[:4]} under "
                          f"'<base>/root', the lexically collapsed path - outside the table's canonical root", {"kind": "path", "ep": "create_table", "path": "", "via_symlink": "dotdot"})
            return res
        comps = COMPONENTS if task["depth"] <= 2 else SHORT
        paths = gen_paths(L, task["depth"], comps)
        eps = task["eps"]
        n = 0
        for i, path in enumerate(paths):
            if i % task["nshard"] != task["shard"]:
                continue
            for ep in eps:
                outcome, val, events = monitored(L, lambda: call_ep(L, ep, path))
                nt = L.naive_hits_sentinel(path)
                case = {"kind": "path", "ep": ep, "path": path if not path.startswith(L.base) else "$BASE" + path[len(L.base):], "via_symlink": task["via_symlink"]}
                res.case(key=f"{ep}|{case['path']}|{task['via_symlink']}", nontrivial=nt,
                         labels=(["escaping"] if L.escaping(path) else ["inside"]) + (["via-symlink-root"] if task["via_symlink"] else []) + [f"outcome:{outcome}"],
                         sample=case if nt and n % 997 == 0 else None)
                n += 1
                judge(L, res, ep, path, outcome, val, events, case)
            if i % 200 == 0 and L.fingerprint() != L.fp:
                res.violation("sentinel-changed", f"sentinel tree changed during calls up to path #{i} {path!r}", {"kind": "path", "ep": "*", "path": path, "via_symlink": task["via_symlink"]})
                break
        if L.fingerprint() != L.fp:
            res.violation("sentinel-changed", "sentinel tree fingerprint changed", {"kind": "paths", "task": task})
    res.extra["exhaustive_to_depth"] = task["depth"]
    return res


# ---------------------------------------------------------------------------------------------
TAMPER_TARGETS = ["../../../../../outside/evil.parquet", "data/out_link/evil.parquet", "data/file_link.parquet", "$ABS/outside/evil.parquet",
                  "/data/../../../../../../outside/evil.parquet", "../root2/data/x.parquet", "$ROOT2/data/x.parquet", "/../root2/data/x.parquet",
                  "metadata/rel_out/evil.parquet", "$ROOTSTR2/data/x.parquet"]
TAMPER_META = ["../../../../../outside/evil_mlist.avro", "metadata/rel_out/evil_mlist.avro", "$ABS/outside/evil_mlist.avro", "data/out_link/evil_mlist.avro"]
ACTIONS = ["scan", "scan_noverify", "batches", "iter", "row_count", "gc", "verify_integrity", "append", "delete_all"]


def _subst(L, p):
    return p.replace("$ABS", L.base).replace("$ROOT2", os.path.join(L.parent, "root2")).replace("$ROOTSTR2", L.root + "2")


def tamper(L, what, target):
    """Rewrite a metadata-plane file so that it references `target`."""
    v = read_view(_fs(L.root), rows=False)
    cur = current_snapshot(v)
    if what == "manifest_entry":
        mp = os.path.join(L.root, cur["manifests"][0])
        with open(mp, "rb") as f:
            rd = fastavro.reader(f)
            schema, recs = rd.writer_schema, list(rd)
        recs[0]["data_file"]["file_path"] = target
        recs[0]["data_file"]["checksum"] = None
        b = io.BytesIO()
        fastavro.writer(b, schema, recs)
        with open(mp, "wb") as f:
            f.write(b.getvalue())
    elif what == "manifest_ref":
        lp = os.path.join(L.root, norm(cur["manifest_list"]))
        with open(lp, "rb") as f:
            rd = fastavro.reader(f)
            schema, recs = rd.writer_schema, list(rd)
        recs[0]["manifest_path"] = target.replace("evil.parquet", "evil_manifest.avro").replace("x.parquet", "evil_manifest.avro")
        b = io.BytesIO()
        fastavro.writer(b, schema, recs)
        with open(lp, "wb") as f:
            f.write(b.getvalue())
    elif what == "mlist_ref":
        mp = os.path.join(L.root, "metadata", v["metadata_file"])
        md = json.load(open(mp))
        md["snapshots"][-1]["manifest_list"] = target
        json.dump(md, open(mp, "w"))
    elif what == "marker_payload":
        os.makedirs(os.path.join(L.root, "metadata", "inflight"), exist_ok=True)
        with open(os.path.join(L.root, "metadata", "inflight", "evil.parquet.inflight"), "w") as f:
            json.dump({"file_path": target}, f)
        t = __import__("time").time() - 90000
        os.utime(os.path.join(L.root, "metadata", "inflight", "evil.parquet.inflight"), (t, t))


def do_action(L, act):
    import datashard

    t = datashard.load_table(L.location)
    if act == "scan":
        return t.scan()
    if act == "scan_noverify":
        return t.scan(verify_checksums=False, filter={"k": (">", 0)})
    if act == "batches":
        return [r for b in t.scan_batches(batch_size=1) for r in b]
    if act == "iter":
        return list(t.iter_records(verify_checksums=False))
    if act == "row_count":
        return t.row_count()
    if act == "gc":
        from ..lib import age_tree

        _MON["on"] = False
        age_tree(L.root, 7200, only=lambda rel: rel.startswith("data") or rel.startswith("metadata/manifests"))
        _MON["on"] = True
        return t.garbage_collect(grace_period_ms=0)
    if act == "verify_integrity":
        cur = t.current_snapshot()
        ml = t.file_manager.read_manifest_list_file(cur.manifest_list.lstrip("/"))
        return t.file_manager.verify_integrity(ml)
    if act == "append":
        return t.append_records([{"k": 5, "s": "n"}])
    if act == "delete_all":
        with t.new_transaction() as tx:
            tx.delete_files([df.file_path for df in t._get_all_data_files()])
            tx.commit()
        return None


def run_tampered(task):
    res = Result()
    install_hook()
    combos = []
    for what in ("manifest_entry", "manifest_ref", "mlist_ref", "marker_payload"):
        targets = TAMPER_META if what == "mlist_ref" else TAMPER_TARGETS
        for tg in targets:
            for act in ACTIONS:
                combos.append((what, tg, act))
    for i, (what, tg, act) in enumerate(combos):
        if i % task["nshard"] != task["shard"]:
            continue
        with scratch_dir("c17t") as d:
            L = Layout(d, task["via_symlink"])
            if getattr(L, "misplaced", None) is not None:
                continue  # reported by the path enumeration of the same root spelling
            target = _subst(L, tg)
            tamper(L, what, target)
            outcome, val, events = monitored(L, lambda: do_action(L, act))
            case = {"kind": "tamper", "what": what, "target": tg, "action": act, "via_symlink": task["via_symlink"]}
            res.case(key=f"{what}|{tg}|{act}|{task['via_symlink']}", nontrivial=True, labels=["tampered", f"tamper:{what}", f"outcome:{outcome}"] + (["via-symlink-root"] if task["via_symlink"] else []),
                     sample=case if i % 53 == 0 else None)
            if events:
                res.violation(f"outside-access/tampered-{what}/{act}", f"{what} -> {tg!r}, then {act}: touched {events[:3]} outside the table root", case)
            elif outcome == "ok" and act in ("scan", "scan_noverify", "batches", "iter") and any(isinstance(r, dict) and r.get("s") == "EVIL" for r in (val or [])):
                res.violation(f"outside-data-returned/tampered-{what}/{act}", f"{what} -> {tg!r}: {act} returned rows of a file outside the table", case)
            if L.fingerprint() != L.fp:
                res.violation(f"sentinel-changed/tampered-{what}/{act}", f"{what} -> {tg!r}, then {act}: sentinel tree changed", case)
    return res


LATE_EPS = ["read_file", "open_file", "open_seekable", "write_file", "exists", "list_files", "delete_file", "get_size", "get_modified_time", "makedirs",
            "dfm.read_data_file", "dfm.open_parquet_source", "dfm.write_data_file", "table.scan", "table.gc"]


def run_late_symlinks(task):
    """A directory inside the table is first used normally and is THEN replaced by a symlink to the outside; the same path is used again through the
    SAME storage / table objects (anything remembered from the first use must not let the second one out)."""
    import shutil

    res = Result()
    install_hook()
    dirs = ["data", "data/part", "metadata/manifests", "metadata"]
    idx = 0
    for via in (False, True):
        for dname in dirs:
            for ep in LATE_EPS:
                idx += 1
                if idx % task["nshard"] != task["shard"]:
                    continue
                with scratch_dir("c17l") as d:
                    L = Layout(d, via)
                    os.makedirs(os.path.join(L.root, "data", "part"), exist_ok=True)
                    import pyarrow as pa
                    import pyarrow.parquet as pq

                    tb = pa.Table.from_pylist([{"k": 7, "s": "in"}], schema=pa.schema([("k", pa.int64()), ("s", pa.string())]))
                    for dd in dirs:
                        os.makedirs(os.path.join(L.root, dd), exist_ok=True)
                        pq.write_table(tb, os.path.join(L.root, dd, "x.parquet"))
                        # the outside twin has the same names
                        os.makedirs(os.path.join(L.base, "outside", dd), exist_ok=True)
                        pq.write_table(tb, os.path.join(L.base, "outside", dd, "x.parquet"))
                    L.fp = L.fingerprint()
                    path = f"{dname}/x.parquet" if ep not in ("list_files", "makedirs") else dname

                    def call():
                        if ep == "table.scan":
                            return L.t.scan()
                        if ep == "table.gc":
                            return L.t.garbage_collect(grace_period_ms=10**9)
                        return call_ep(L, ep, path)

                    first = monitored(L, call)
                    # now the directory becomes a symlink to its outside twin
                    real = os.path.join(L.root, dname)
                    shutil.move(real, real + ".moved")
                    os.symlink(os.path.join(L.base, "outside", dname), real)
                    outcome, val, events = monitored(L, call)
                    case = {"kind": "late", "ep": ep, "dir": dname, "via_symlink": via}
                    res.case(key=f"late|{ep}|{dname}|{via}", nontrivial=True, labels=["late-symlink", f"outcome:{outcome}"] + (["via-symlink-root"] if via else []), sample=case if idx % 17 == 0 else None)
                    if events:
                        res.violation(f"outside-access/late-symlink/{ep}", f"{ep}({path!r}) after {dname} was replaced by a symlink to the outside: touched {events[:3]}", case)
                    elif L.fingerprint() != L.fp:
                        res.violation(f"sentinel-changed/late-symlink/{ep}", f"{ep}({path!r}) after {dname} became a symlink: sentinel tree changed", case)
    return res


@st.composite
def deep_path(draw):
    n = draw(st.integers(4, 5))
    comps = draw(st.lists(st.sampled_from(COMPONENTS), min_size=n, max_size=n))
    pre = draw(st.sampled_from(["", "/", "//"]))
    sep = draw(st.sampled_from(["/", "/", "//"]))
    return {"kind": "path", "path": pre + sep.join(comps), "ep": draw(st.sampled_from(STORAGE_EPS + DFM_EPS)), "via_symlink": draw(st.booleans())}


# object storage: the table root is the key prefix '<env prefix>/<table>/'; S3 keys are literal strings, so the only way out is a
# key that does not start with that prefix. Every request the fake S3 receives is recorded.
S3_COMPONENTS = ["..", ".", "", "data", "metadata", "t10", "t1", "x.parquet", "secret.txt", "manifests"]
S3_EPS = ["read_file", "read_json", "open_file", "open_seekable", "write_file", "write_json", "exists", "list_files", "delete_file", "get_size", "get_modified_time",
          "create_lock", "dfm.read_data_file", "dfm.open_parquet_source", "dfm.write_data_file", "tx.append_files", "tx.delete_files"]


class _S3L:
    """Just enough of Layout for call_ep."""

    def __init__(self, t, location):
        self.t, self.location = t, location


def _s3_paths(task):
    paths = []
    for dpt in range(1, task["depth"] + 1):
        for combo in itertools.product(S3_COMPONENTS, repeat=dpt):
            rel = "/".join(combo)
            paths += [rel, "/" + rel]
    paths += ["../t10/data/x.parquet", "/data/../../t10/data/x.parquet", "data/../../../secret.txt", "../../secret.txt", "..//t10/data/x.parquet", "data/./../../t1x/secret.txt",
              "s3://bkt/warehouse/t10/data/x.parquet", "/warehouse/t10/data/x.parquet", "warehouse/t10/data/x.parquet", "../t1x/secret.txt", "..", "../", "/..", "../t10"]
    if task.get("only"):
        return [task["only"][1]]
    return [p for i, p in enumerate(paths) if i % task["nshard"] == task["shard"]]


S3_BLOCK = 300  # paths per fresh bucket: accepted writes/commits accumulate, and listing/metadata cost grows with them


def run_s3paths(task):
    from ..world import S3World

    res = Result()
    mine = _s3_paths(task)
    for b0 in range(0, len(mine), S3_BLOCK):
        _run_s3_block(task, mine[b0:b0 + S3_BLOCK], b0, res, S3World)
    res.extra["s3_exhaustive_to_depth"] = task["depth"]
    return res


def _run_s3_block(task, paths, b0, res, S3World):
    w = S3World(table="t1", env_prefix="warehouse")
    root = w.key_prefix + "/"
    with w.env():
        t = w.create(make_schema(FIELDS))
        t.append_records([{"k": 1, "s": "a"}])
        sentinels = {"warehouse/t10/data/x.parquet": b"SIBLING", "warehouse/t10/metadata.version-hint.text": b"v9", "warehouse/t1x/secret.txt": b"S1",
                     "warehouse/secret.txt": b"S2", "secret.txt": b"S3", "data/x.parquet": b"S4", "other/t1/data/x.parquet": b"S5", "warehouse/t1": b"S6"}
        for k, b in sentinels.items():
            w.fake.raw_put(k, b)
        fp0 = {k: (w.fake.objects[k]["body"], w.fake.objects[k]["etag"]) for k in sentinels}
        L = _S3L(t, w.location())
        seen = []
        w.fake.hook = lambda phase, op, key, req: seen.append((op, key)) if phase == "before" else None
        try:
            for j, path in enumerate(paths):
                i = b0 + j
                for ep in (S3_EPS if not task.get("only") else [task["only"][0]]):
                    del seen[:]
                    try:
                        call_ep(L, ep, path)
                        outcome = "ok"
                    except Exception:
                        outcome = "raise"
                    bad = [(op, key) for op, key in seen if not str(key).startswith(root)]
                    naive = os.path.normpath("/" + root + path.lstrip("/")).lstrip("/")
                    nt = not (naive + "/").startswith(root)
                    case = {"kind": "s3path", "ep": ep, "path": path}
                    res.case(key=f"s3|{ep}|{path}", nontrivial=nt, labels=["s3", "escaping" if nt else "inside", f"outcome:{outcome}"], sample=case if nt and i % 211 == 0 else None)
                    if bad:
                        res.violation(f"outside-access/s3/{ep}/{bad[0][0]}", f"{ep}({path!r}) on the table at key prefix {root!r} sent {bad[:3]} - keys outside the table's prefix", case)
        finally:
            w.fake.hook = None
        fp1 = {k: (w.fake.objects[k]["body"], w.fake.objects[k]["etag"]) if k in w.fake.objects else None for k in sentinels}
        if fp1 != fp0:
            res.violation("sentinel-changed/s3", f"objects outside the table prefix changed: {[k for k in sentinels if fp1[k] != fp0[k]]}", {"kind": "s3paths", "task": task})


def plan(tier, seed):
    tasks = []
    for via in (False, True):
        tasks.append({"kind": "paths", "depth": 2, "eps": STORAGE_EPS + DFM_EPS, "via_symlink": via, "shard": 0, "nshard": 1})
        ns = 5
        for s in range(ns):
            tasks.append({"kind": "paths", "depth": 3, "eps": STORAGE_EPS + DFM_EPS[:6], "via_symlink": via, "shard": s, "nshard": ns})
        ns = 3 if tier == "quick" else 2
        for s in range(ns):
            tasks.append({"kind": "tamper", "via_symlink": via, "shard": s, "nshard": ns})
    tasks.append({"kind": "paths", "depth": 2, "eps": STORAGE_EPS + DFM_EPS, "via_symlink": "dotdot", "shard": 0, "nshard": 1})
    tasks.append({"kind": "tamper", "via_symlink": "dotdot", "shard": 0, "nshard": 1})
    for s in range(3):
        tasks.append({"kind": "late", "shard": s, "nshard": 3})
    ns = 4 if tier == "quick" else 16
    for s in range(ns):
        tasks.append({"kind": "s3paths", "depth": 3 if tier == "quick" else 4, "shard": s, "nshard": ns})
    n = 150 if tier == "quick" else 8000
    for s in range(2 if tier == "quick" else 8):
        tasks.append({"kind": "deep", "n": n, "seed": seed * 1000 + s, "tier": tier})
    return tasks


def run_task(task):
    if task["kind"] == "paths":
        return run_paths(task)
    if task["kind"] == "tamper":
        return run_tampered(task)
    if task["kind"] == "late":
        return run_late_symlinks(task)
    if task["kind"] == "s3paths":
        return run_s3paths(task)
    res = Result()
    install_hook()
    state = {}

    def chk(case):
        key = case["via_symlink"]
        if key not in state:
            cm = scratch_dir("c17d")
            d = cm.__enter__()
            state[key] = (cm, Layout(d, key))
        L = state[key][1]
        outcome, val, events = monitored(L, lambda: call_ep(L, case["ep"], case["path"]))
        vios = []
        tmp = Result()
        judge(L, tmp, case["ep"], case["path"], outcome, val, events, case)
        nt = L.naive_hits_sentinel(case["path"])
        return {"violations": [(v["bucket"], v["what"]) for v in tmp.violations], "nontrivial": nt,
                "labels": ["escaping" if L.escaping(case["path"]) else "inside", "deep"] + (["via-symlink-root"] if key else [])}

    try:
        campaign(deep_path(), chk, task["n"], task["seed"], res, PROP, shrink=False)
        for key, (cm, L) in state.items():
            if L.fingerprint() != L.fp:
                res.violation("sentinel-changed", "sentinel tree changed during deep-path campaign", {"kind": "deep"})
    finally:
        for cm, _L in state.values():
            cm.__exit__(None, None, None)
    return res


def replay(case):
    install_hook()
    out = []
    if case["kind"] in ("s3path", "s3paths"):
        r = run_s3paths({"depth": 2, "shard": 0, "nshard": 1, "only": (case["ep"], case["path"]) if case["kind"] == "s3path" else None})
        return [{"bucket": v["bucket"], "what": v["what"]} for v in r.violations][:3]
    with scratch_dir("c17r") as d:
        L = Layout(d, case.get("via_symlink", False))
        tmp = Result()
        if case.get("ep") == "create_table" and case.get("via_symlink") == "dotdot":
            return [{"bucket": "outside-access/root-spelling/create_table", "what": f"created {L.misplaced[:4]} under the lexically collapsed path"}] if getattr(L, "misplaced", None) is not None else []
        if case["kind"] == "late":
            r = run_late_symlinks({"shard": 0, "nshard": 1})
            return [{"bucket": v["bucket"], "what": v["what"]} for v in r.violations if v["case"].get("ep") == case["ep"] and v["case"].get("dir") == case["dir"]][:1]
        if case["kind"] == "tamper":
            tamper(L, case["what"], _subst(L, case["target"]))
            outcome, val, events = monitored(L, lambda: do_action(L, case["action"]))
            if events:
                tmp.violation(f"outside-access/tampered-{case['what']}/{case['action']}", f"touched {events[:3]}", case)
            elif outcome == "ok" and any(isinstance(r, dict) and r.get("s") == "EVIL" for r in (val if isinstance(val, list) else [])):
                tmp.violation(f"outside-data-returned/tampered-{case['what']}/{case['action']}", "returned outside rows", case)
        else:
            path = case["path"].replace("$BASE", L.base)
            outcome, val, events = monitored(L, lambda: call_ep(L, case["ep"], path))
            judge(L, tmp, case["ep"], path, outcome, val, events, case)
        if L.fingerprint() != L.fp:
            tmp.violation("sentinel-changed", "sentinel changed", case)
        out = [{"bucket": v["bucket"], "what": v["what"]} for v in tmp.violations]
    return out
