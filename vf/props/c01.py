"""C01 - Concurrent commits are serializable: no acknowledged write lost or duplicated."""
from __future__ import annotations

import collections
import copy
import itertools

from hypothesis import strategies as st

from ..common import Result, chash, scratch_dir
from ..conc import depth1_schedules, run_scheduled, share_handle
from ..hist import FIELDS
from ..hyp import campaign
from ..reader import ReadError, read_view, rows_multiset, current_rows, current_snapshot, canon_row
from ..tbl import make_schema
from . import c04

PROP = "C01"
LEVEL = "exploration"
RULE = ("Scenario = backend {local flock, S3 with conditional writes} x topology {threads sharing one handle, separate handles} x clock {real-like, coarse "
        "(equal milliseconds), frozen} x 2-4 committers, each with one operation from {append, multi-append transaction, delete_files, expire, delete_snapshot, "
        "property change through metadata_manager.commit} on a table with 1-4 prior snapshots; the interleaving is owned by a deterministic scheduler that "
        "yields at every storage-API call, lock syscall, atomic publish and S3 request. Schedules: exhaustive single-preemption enumeration (every decision "
        "index x every actor) for fixed 2-committer scenarios, and Hypothesis PCT-style schedules (priority order + <=3 change points) over generated "
        "scenarios. Oracle: every version the pointer ever named is parsed in flip order; version k must equal version k-1 with exactly the flipping actor's "
        "operation applied; acknowledged <=> flipped exactly once; final table = last version; parents linear, sequence numbers strictly increasing. "
        "A multi-process stress mix-in (6 OS processes, own handles, appends + snapshot-preserving commits) applies the end-state part of the oracle without schedule control. "
        "Non-trivial: some committer read its base before another committer's flip and attempted its own flip after it. distinct = (scenario, schedule).")
ASSUMPTIONS = ["kernel flock and the fake S3's conditional PUT are the 'real mutual exclusion' the statement presupposes; non-CAS S3 is out of scope",
               "separate handles inside one process stand in for separate processes (they share no Python state and contend through flock / the object store)",
               "interleavings inside a single storage call or inside pyarrow are not controlled"]
REQUIRED_LABELS = {"quick": ["stale-base-race", "clock:manual", "topo:shared", "world:s3cas"], "thorough": ["stale-base-race"]}

OPKINDS = ["append", "multi", "delete", "replace", "expire", "delete_snapshot", "set_prop"]


COARSE_MS = 1_790_000_000_000


def build_base(world, nprior, coarse=False, multi=False):
    from .. import clock as vclock

    # coarse clock: the last prior commits and the concurrent commits all fall into the same millisecond
    clk = vclock.VClock("manual", start_ms=COARSE_MS - 5) if coarse else None
    with world.env(), (vclock.installed(clk) if clk else __import__("contextlib").nullcontext()):
        t = world.create(make_schema(FIELDS))
        for i in range(nprior):
            if clk and i == nprior - 1:
                clk.ms = COARSE_MS
            elif clk:
                clk.tick(1)
            t.append_records([{"k": i, "s": f"base{i}"}])
        if multi:
            # one manifest holding THREE data files: deleting one of them rewrites that manifest (partial delete)
            with t.new_transaction() as txm:
                for j in range(3):
                    txm.append_data([{"k": 70 + j, "s": f"multi{j}"}])
                txm.commit()
    return read_view(world.fs())


def make_op_fn(t, op, base, actor_idx):
    """Returns a zero-arg callable performing the op the documented way; its return value tells whether a commit was attempted.
    With op['then'] the actor performs a second operation through the SAME handle; the callable then returns one (outcome, value) per operation."""
    if "then" in op:
        f1 = _make_single(t, {k: v for k, v in op.items() if k != "then"}, base, actor_idx)
        f2 = _make_single(t, op["then"], base, actor_idx + 50)

        def both():
            out = []
            for f in (f1, f2):
                try:
                    out.append(("ok", f()))
                except Exception as e:  # noqa
                    out.append(("raise", e))
            return out

        return both
    return _make_single(t, op, base, actor_idx)


def _make_single(t, op, base, actor_idx):
    kind = op["op"]
    files = sorted(current_snapshot(base)["files"]) if current_snapshot(base) else []
    snaps = base["snapshots"]
    if kind == "append":
        rows = [{"k": 1000 + actor_idx * 10 + j, "s": f"a{actor_idx}"} for j in range(op.get("n", 1))]
        return lambda: t.append_records(rows)
    if kind == "multi":
        r1 = [{"k": 2000 + actor_idx * 10, "s": f"m{actor_idx}"}]
        r2 = [{"k": 2001 + actor_idx * 10, "s": f"m{actor_idx}"}]

        def f():
            with t.new_transaction() as tx:
                tx.append_data(r1)
                tx.append_data(r2)
                return tx.commit()

        return f
    if kind == "delete":
        p = files[op.get("which", 0) % len(files)]

        def f():
            with t.new_transaction() as tx:
                tx.delete_files([p])
                return tx.commit()

        return f
    if kind == "replace":
        # delete one file and append its replacement in ONE transaction
        p = files[op.get("which", 0) % len(files)]
        rrows = [{"k": 3000 + actor_idx, "s": f"r{actor_idx}"}]

        def f():
            with t.new_transaction() as tx:
                tx.delete_files([p])
                tx.append_data(rrows)
                return tx.commit()

        return f
    if kind == "expire":
        cutoff = snaps[op.get("which", 0) % len(snaps)]["ts"] + 1

        def f():
            with t.new_transaction() as tx:
                tx.expire_snapshots(cutoff)
                return tx.commit()

        return f
    if kind == "delete_snapshot":
        sid = snaps[op.get("which", 0) % len(snaps)]["id"]
        return lambda: t.snapshot_manager.delete_snapshot(sid)
    if kind == "set_prop":
        def f():
            mm = t.metadata_manager
            b = mm.refresh()
            n = copy.deepcopy(b)
            n.properties[f"p{actor_idx}"] = f"v{actor_idx}"
            mm.commit(b, n)
            return True

        return f
    raise ValueError(kind)


def expected_after(prev, op, base, actor_idx):
    """Model: what version k must look like, given version k-1 (independent view) and the flipping actor's op."""
    kind = op["op"]
    cur = current_snapshot(prev)
    prev_ids = [s["id"] for s in prev["snapshots"]]
    exp = {"ids": list(prev_ids), "new": None, "current": prev["current_id"], "props": dict(prev["properties"]), "last_seq": prev["last_seq"]}
    base_files = sorted(current_snapshot(base)["files"]) if current_snapshot(base) else []
    base_snaps = base["snapshots"]
    cur_files = set(cur["files"]) if cur else set()
    cur_rows = collections.Counter(cur["rows"]) if cur else collections.Counter()
    if kind in ("append", "multi"):
        if kind == "append":
            rows = [{"k": 1000 + actor_idx * 10 + j, "s": f"a{actor_idx}"} for j in range(op.get("n", 1))]
            nnew = 1
        else:
            rows = [{"k": 2000 + actor_idx * 10, "s": f"m{actor_idx}"}, {"k": 2001 + actor_idx * 10, "s": f"m{actor_idx}"}]
            nnew = 2
        exp["new"] = {"kept": cur_files, "n_new": nnew, "rows": cur_rows + rows_multiset(rows)}
    elif kind == "delete":
        p = base_files[op.get("which", 0) % len(base_files)]
        kept = cur_files - {p}
        rows = collections.Counter()
        for f in kept:
            rows.update(canon_row(r) for r in cur["rows_by_file"][f])
        exp["new"] = {"kept": kept, "n_new": 0, "rows": rows}
    elif kind == "replace":
        p = base_files[op.get("which", 0) % len(base_files)]
        kept = cur_files - {p}
        rows = collections.Counter()
        for f in kept:
            rows.update(canon_row(r) for r in cur["rows_by_file"][f])
        exp["new"] = {"kept": kept, "n_new": 1, "rows": rows + rows_multiset([{"k": 3000 + actor_idx, "s": f"r{actor_idx}"}])}
    elif kind == "expire":
        cutoff = base_snaps[op.get("which", 0) % len(base_snaps)]["ts"] + 1
        exp["ids"] = [s["id"] for s in prev["snapshots"] if s["ts"] >= cutoff or s["id"] == prev["current_id"]]
    elif kind == "delete_snapshot":
        sid = base_snaps[op.get("which", 0) % len(base_snaps)]["id"]
        exp["ids"] = [i for i in prev_ids if i != sid]
        if prev["current_id"] == sid:
            # repointed to the most recently COMMITTED survivor (list order = commit order), whatever the timestamps say
            exp["current"] = exp["ids"][-1] if exp["ids"] else None
    elif kind == "set_prop":
        exp["props"][f"p{actor_idx}"] = f"v{actor_idx}"
    return exp


def check_refinement(world, base, ops, run, topo):
    """Returns list of (bucket, what)."""
    vios = []
    fs = world.fs()
    prev = base
    flips_by_actor = collections.Counter()
    # per-actor sequences: operations, their outcomes, and the operations that were acknowledged (in order)
    op_seq, res_seq, idx_seq = {}, {}, {}
    for aidx, op in enumerate(ops):
        if "then" in op:
            op_seq[aidx] = [{k: v for k, v in op.items() if k != "then"}, op["then"]]
            idx_seq[aidx] = [aidx, aidx + 50]
        else:
            op_seq[aidx] = [op]
            idx_seq[aidx] = [aidx]
        oc, val = run.outcomes[aidx] if aidx < len(run.outcomes) else ("ok", None)
        if "then" in op and oc == "ok" and isinstance(val, list):
            res_seq[aidx] = val
        else:
            res_seq[aidx] = [(oc, val)] + ([("raise", RuntimeError("not run"))] if "then" in op else [])
    acked = {a: [j for j, (oc, val) in enumerate(res_seq[a]) if oc == "ok" and not (op_seq[a][j]["op"] == "delete_snapshot" and val is False) and op_seq[a][j]["op"] != "noop"] for a in op_seq}
    for k, (step, aidx, content) in enumerate(run.flips):
        nth = flips_by_actor[aidx]
        flips_by_actor[aidx] += 1
        if nth >= len(acked.get(aidx, [])):
            j = min(nth, len(op_seq[aidx]) - 1)
        else:
            j = acked[aidx][nth]
        op = op_seq[aidx][j]
        model_idx = idx_seq[aidx][j]
        try:
            v = read_view(fs, metadata_file=content)
        except ReadError as e:
            vios.append((f"flip-to-unreadable-version/{op['op']}", f"flip #{k + 1} by actor {aidx} ({op['op']}) names {content}: {e}"))
            return vios
        exp = expected_after(prev, op, base, model_idx)
        ids = [s["id"] for s in v["snapshots"]]
        byid_prev = {s["id"]: s for s in prev["snapshots"]}
        problem = None
        new_ids = [i for i in ids if i not in byid_prev]
        if exp["new"] is not None:
            if len(new_ids) != 1 or [i for i in ids if i in byid_prev] != exp["ids"]:
                problem = f"snapshot list {ids} != previous {exp['ids']} + one new"
            else:
                ns = next(s for s in v["snapshots"] if s["id"] == new_ids[0])
                newf = set(ns["files"]) - exp["new"]["kept"]
                if (set(ns["files"]) - newf) != exp["new"]["kept"] or len(newf) != exp["new"]["n_new"]:
                    problem = f"new snapshot files: kept {sorted(set(ns['files']) - newf)} expected {sorted(exp['new']['kept'])}, new {len(newf)} expected {exp['new']['n_new']}"
                elif ns["rows"] != exp["new"]["rows"]:
                    problem = f"new snapshot rows differ: missing {list((exp['new']['rows'] - ns['rows']).items())[:2]} extra {list((ns['rows'] - exp['new']['rows']).items())[:2]}"
                elif v["current_id"] != ns["id"]:
                    problem = "current_snapshot_id is not the new snapshot"
                elif ns["parent"] != (prev["current_id"] if prev["current_id"] not in (None,) else -1) and not (prev["current_id"] in (None, -1) and ns["parent"] in (None, -1)):
                    problem = f"new snapshot parent {ns['parent']} != previous current {prev['current_id']}"
                elif ns["seq"] != prev["last_seq"] + 1 or v["last_seq"] != prev["last_seq"] + 1:
                    problem = f"sequence {ns['seq']} / last {v['last_seq']} != previous last {prev['last_seq']} + 1"
        else:
            if ids != exp["ids"]:
                problem = f"snapshot list {ids} != expected {exp['ids']} (previous {[s['id'] for s in prev['snapshots']]})"
            elif v["current_id"] != exp["current"] and not (exp["current"] is None and v["current_id"] in (None, -1)):
                problem = f"current {v['current_id']} != expected {exp['current']}"
            elif v["last_seq"] != prev["last_seq"]:
                problem = f"last_sequence_number changed {prev['last_seq']} -> {v['last_seq']}"
        if problem is None and v["properties"] != exp["props"]:
            problem = f"properties {v['properties']} != expected {exp['props']}"
        if problem is None:
            for s in v["snapshots"]:
                o = byid_prev.get(s["id"])
                if o is not None and (s["files"] != o["files"] or s["rows"] != o["rows"]):
                    problem = f"pre-existing snapshot {s['id']} changed"
        if problem is None and v["uuid"] != base["uuid"]:
            problem = "table uuid changed"
        if problem:
            prev_actor = run.flips[k - 1][1] if k else None
            vios.append((f"not-serializable/{op['op']}-after-{op_seq[prev_actor][0]['op'] if prev_actor is not None else 'base'}",
                         f"flip #{k + 1} by actor {aidx} ({op}) does not equal the previous version plus its operation: {problem}"))
            return vios
        prev = v
    # (b) acknowledgement <=> exactly one flip
    for aidx in op_seq:
        n = flips_by_actor.get(aidx, 0)
        kinds = "+".join(o["op"] for o in op_seq[aidx])
        if all(o["op"] == "noop" for o in op_seq[aidx]):
            continue
        want = len(acked[aidx])
        if n != want:
            raised = [f"{type(v).__name__}" for oc, v in res_seq[aidx] if oc == "raise"]
            if n > want and raised:
                vios.append((f"raised-but-flipped/{kinds}", f"actor {aidx} ({kinds}): {want} operation(s) acknowledged, {raised} raised, but it flipped the pointer {n} times"))
            else:
                vios.append((f"ack-without-single-flip/{kinds}", f"actor {aidx} ({kinds}) acknowledged {want} commit(s) but flipped the pointer {n} times"))
    # (c) final state
    try:
        final = read_view(fs)
    except ReadError as e:
        vios.append(("final-unreadable", str(e)))
        return vios
    if final["metadata_file"] != (run.flips[-1][2] if run.flips else base["metadata_file"]):
        vios.append(("final-pointer", f"pointer names {final['metadata_file']}, last recorded flip {run.flips[-1][2] if run.flips else None}"))
    seqs = [s["seq"] for s in sorted(final["snapshots"], key=lambda s: s["seq"] or 0)]
    if len(set(seqs)) != len(seqs):
        vios.append(("duplicate-sequence", f"sequence numbers {seqs}"))
    with world.env():
        try:
            got = rows_multiset(world.open().scan())
            if got != current_rows(final):
                vios.append(("final-scan-differs", "fresh load_table scan differs from the independent read of the final version"))
        except Exception as e:  # noqa
            vios.append((f"final-scan-raises/{type(e).__name__}", str(e)[:120]))
    return vios


def stale_race(run):
    """Did some committer start (read its base) before another's flip and flip/attempt after it?"""
    if not run.flips:
        return False
    for a in run.sched.actors:
        for (step, aidx, _c) in run.flips:
            if aidx != a.idx and a.started_at is not None and a.started_at < step and (a.ended_at or 0) > step:
                return True
    return False


def run_case(case):
    out = {"violations": [], "labels": [], "nontrivial": False}
    sc = case["sc"]
    with scratch_dir("c01") as d:
        world = c04.make_world(d, sc["world"])
        base = build_base(world, sc["nprior"], coarse=sc["clock"] != "real", multi=bool(sc.get("multi_base")))
        if sc.get("multi_base"):
            out["labels"].append("multi-file-manifest-base")

        def make_actors(w, sch, clk):
            if sc["topology"] == "shared":
                t = share_handle(w.open(), sch)
                tabs = [t] * len(sc["ops"])
            else:
                tabs = [w.open() for _ in sc["ops"]]
            if sc["clock"] == "coarse":
                clk.step_ms = 0
            return [(f"c{i}", make_op_fn(tabs[i], op, base, i)) for i, op in enumerate(sc["ops"])]

        clock_mode = "real" if sc["clock"] == "real" else "manual"
        run = run_scheduled(world, make_actors, case["schedule"], clock_mode=clock_mode, seed=case.get("seed", 0),
                            clock_start_ms=COARSE_MS if clock_mode != "real" else None)
        out["labels"] += [f"world:{sc['world']}", f"topo:{sc['topology']}", f"clock:{clock_mode}", f"n:{len(sc['ops'])}"]
        if run.error is not None:
            out["labels"].append("sched-error")
            out["violations"].append((f"scheduler/{type(run.error).__name__}", str(run.error)[:200]))
            return out
        for oc, val in run.outcomes:
            out["labels"].append(f"outcome:{oc}" + (f":{type(val).__name__}" if oc == "raise" else ""))
            if isinstance(val, list):
                out["labels"].append("two-ops-one-handle")
        if stale_race(run):
            out["labels"].append("stale-base-race")
            out["nontrivial"] = True
        if all(o["op"] in ("expire", "delete_snapshot", "set_prop") and "then" not in o for o in sc["ops"]):
            out["labels"].append("all-metadata-only")
        out["violations"] = check_refinement(world, base, sc["ops"], run, sc["topology"])
        out["decisions"] = run.sched.decisions
    return out


FIXED = [
    {"world": "local", "topology": "separate", "clock": "real", "nprior": 2, "ops": [{"op": "append"}, {"op": "append"}]},
    {"world": "local", "topology": "shared", "clock": "real", "nprior": 2, "ops": [{"op": "append"}, {"op": "delete", "which": 0}]},
    {"world": "local", "topology": "separate", "clock": "coarse", "nprior": 3, "ops": [{"op": "expire", "which": 0}, {"op": "set_prop"}]},
    {"world": "local", "topology": "separate", "clock": "coarse", "nprior": 3, "ops": [{"op": "delete_snapshot", "which": 0}, {"op": "append"}]},
    {"world": "s3cas", "topology": "separate", "clock": "real", "nprior": 2, "ops": [{"op": "append"}, {"op": "multi"}]},
    {"world": "s3cas", "topology": "separate", "clock": "coarse", "nprior": 3, "ops": [{"op": "set_prop"}, {"op": "delete_snapshot", "which": 1}]},
    {"world": "local", "topology": "shared", "clock": "coarse", "nprior": 2, "ops": [{"op": "set_prop"}, {"op": "expire", "which": 0}]},
    {"world": "s3cas", "topology": "shared", "clock": "real", "nprior": 1, "ops": [{"op": "delete", "which": 0}, {"op": "append"}]},
]
FIXED.insert(2, {"world": "local", "topology": "separate", "clock": "real", "nprior": 2, "ops": [{"op": "replace", "which": 0}, {"op": "append"}]})
FIXED.insert(3, {"world": "local", "topology": "separate", "clock": "real", "nprior": 1, "ops": [{"op": "append", "then": {"op": "append"}}, {"op": "append", "then": {"op": "set_prop"}}]})


def run_enum(task):
    res = Result()
    sc = task["sc"]
    base_case = {"kind": "sched", "sc": sc, "schedule": {"order": [0, 1]}, "seed": 1}
    o = run_case(base_case)
    D = o.get("decisions", 0)
    orders = task.get("orders") or ([0, 1], [1, 0])
    scheds = [{"order": order, "preempt": [[i, j]]} for order in orders for i in range(1, int(D * 1.15) + 2) for j in (0, 1)]
    scheds = [{"order": o} for o in orders] + scheds
    for idx, schd in enumerate(scheds):
        if idx % task["nshard"] != task["shard"]:
            continue
        case = {"kind": "sched", "sc": sc, "schedule": schd, "seed": 1}
        o = run_case(case)
        res.case(key=chash(case), nontrivial=o["nontrivial"], labels=o["labels"] + ["enum-depth1"] + ([task["label"]] if task.get("label") else []), sample=case if o["nontrivial"] and idx % 61 == 0 else None)
        for b, w in o["violations"]:
            res.violation(b, w + f" [scenario {sc}, schedule {schd}]", case)
    res.extra["depth1_enumeration_complete_for_fixed_scenarios"] = True
    return res


@st.composite
def pct_case(draw):
    world = draw(st.sampled_from(["local", "local", "s3cas"]))
    topo = draw(st.sampled_from(["separate", "separate", "shared"]))
    clock = draw(st.sampled_from(["real", "coarse", "coarse"]))
    n = draw(st.integers(2, 4))
    nprior = draw(st.integers(1, 4))
    multi_base = draw(st.integers(0, 3)) == 0
    ops = []
    for _ in range(n):
        k = draw(st.sampled_from(OPKINDS))
        o = {"op": k, "which": draw(st.integers(0, 3))}
        if draw(st.integers(0, 3)) == 0:
            # a second operation through the same handle (state carried from one commit to the next)
            o["then"] = {"op": draw(st.sampled_from(["append", "multi", "set_prop", "expire"])), "which": draw(st.integers(0, 3))}
        ops.append(o)
    order = draw(st.permutations(list(range(n))))
    npre = draw(st.integers(0, 3))
    pre = [[draw(st.integers(1, 220)), draw(st.integers(0, n - 1))] for _ in range(npre)]
    return {"kind": "sched", "sc": {"world": world, "topology": topo, "clock": clock, "nprior": nprior, "ops": ops, **({"multi_base": True} if multi_base else {})},
            "schedule": {"order": list(order), "preempt": sorted(pre)}, "seed": draw(st.integers(0, 3))}


CHILD = r"""
import sys, json
sys.path.insert(0, sys.argv[1])
import logging; logging.disable(logging.CRITICAL)
import datashard
t = datashard.load_table(sys.argv[2])
me, n = int(sys.argv[3]), int(sys.argv[4])
acked = []
for j in range(n):
    try:
        if j % 5 == 4:
            # a snapshot-preserving commit in the mix
            with t.new_transaction() as tx:
                tx.expire_snapshots(0)
                tx.commit()
            continue
        if t.append_records([{"k": me * 1000 + j, "s": f"p{me}"}]):
            acked.append(me * 1000 + j)
    except Exception as e:
        print("RAISED", type(e).__name__, flush=True)
print("ACKED", json.dumps(acked), flush=True)
"""


def run_processes(task):
    """True multi-process stress (no schedule control): N processes commit concurrently through their own handles.
    End-state oracle only: every acknowledged append is present exactly once, nothing else is, the chain is linear."""
    import json as _json
    import subprocess
    import sys
    import time as _time
    from ..common import REPO_SRC

    res = Result()
    with scratch_dir("c01p") as d:
        world = c04.make_world(d, "local")
        base = build_base(world, 1)
        nproc, reps = task["nproc"], task["reps"]
        t0 = _time.time()
        procs = [subprocess.Popen([sys.executable, "-c", CHILD, REPO_SRC, world.root, str(i + 1), str(reps)], stdout=subprocess.PIPE, text=True) for i in range(nproc)]
        acked, raised = [], 0
        for p in procs:
            try:
                out, _ = p.communicate(timeout=600)
            except subprocess.TimeoutExpired:
                p.kill()
                res.inconclusive.append("a child timed out")
                continue
            for line in out.splitlines():
                if line.startswith("ACKED"):
                    acked += _json.loads(line[6:])
                elif line.startswith("RAISED"):
                    raised += 1
        case = {"kind": "processes", "nproc": nproc, "reps": reps}
        res.case(key=f"procs|{nproc}|{reps}", nontrivial=True, labels=["processes", "stale-base-race"], sample=case)
        res.case(key=f"procs|{nproc}|{reps}|b", nontrivial=True, labels=["processes"])
        try:
            v = read_view(world.fs())
        except ReadError as e:
            res.violation("processes/final-unreadable", str(e), case)
            return res
        want = current_rows(base) + rows_multiset([{"k": k, "s": f"p{k // 1000}"} for k in acked])
        got = current_rows(v)
        if got != want:
            res.violation("processes/acknowledged-rows-differ", f"{nproc} processes x {reps} ops: lost {list((want - got).items())[:3]} duplicated/extra {list((got - want).items())[:3]}", case)
        seqs = [s["seq"] for s in v["snapshots"]]
        if len(set(seqs)) != len(seqs) or seqs != sorted(seqs):
            res.violation("processes/sequence-numbers", f"sequence numbers not strictly increasing: {seqs}", case)
        if len(v["snapshots"]) != 1 + len(acked):
            res.violation("processes/snapshot-count", f"{len(v['snapshots'])} snapshots for {len(acked)} acknowledged appends + 1", case)
        ids = [s["id"] for s in v["snapshots"]]
        for a, b in zip(v["snapshots"], v["snapshots"][1:]):
            if b["parent"] != a["id"]:
                res.violation("processes/parent-chain", f"snapshot {b['id']} has parent {b['parent']}, previous snapshot is {a['id']}", case)
                break
        res.extra["process_stress_seconds"] = round(_time.time() - t0, 2)
        res.extra["process_stress_acknowledged"] = len(acked)
        res.extra["process_stress_raised"] = raised
    return res


def plan(tier, seed):
    tasks = [{"kind": "procs", "nproc": 6, "reps": 10 if tier == "quick" else 60}]
    ns = 2 if tier == "quick" else 1
    fixed = FIXED if tier == "thorough" else FIXED[:6]
    for sc in fixed:
        for s in range(ns):
            tasks.append({"kind": "enum", "sc": sc, "shard": s, "nshard": ns})
    # every ORDERED pair of operation kinds (the first aiming at the later prior snapshot/file, the second at the earlier one),
    # all single-preemption schedules: the window between any two storage steps of one committer holds the whole other commit
    for k1 in OPKINDS:
        for k2 in OPKINDS:
            for world, topo in ([("local", "separate")] if tier == "quick" else [("local", "separate"), ("s3cas", "separate"), ("local", "shared")]):
                sc = {"world": world, "topology": topo, "clock": "coarse", "nprior": 3, "ops": [{"op": k1, "which": 1}, {"op": k2, "which": 0}]}
                tasks.append({"kind": "enum", "sc": sc, "shard": 0, "nshard": 1, "orders": [[0, 1]] if tier == "quick" else None, "label": "enum-pairs"})
    # a base whose ONLY manifest holds three files: two committers that each delete / replace a different file of it both rewrite
    # that one manifest
    for k1, k2 in [("delete", "delete"), ("delete", "replace"), ("replace", "replace"), ("delete", "append")]:
        sc = {"world": "local", "topology": "separate", "clock": "coarse", "nprior": 0, "multi_base": True, "ops": [{"op": k1, "which": 1}, {"op": k2, "which": 0}]}
        tasks.append({"kind": "enum", "sc": sc, "shard": 0, "nshard": 1, "orders": [[0, 1]] if tier == "quick" else None, "label": "enum-pairs"})
    n = 45 if tier == "quick" else 2500
    for s in range(4 if tier == "quick" else 16):
        tasks.append({"kind": "pct", "n": n, "seed": seed * 1000 + s, "tier": tier})
    return tasks


def run_task(task):
    if task["kind"] == "enum":
        return run_enum(task)
    if task["kind"] == "procs":
        return run_processes(task)
    res = Result()
    campaign(pct_case(), run_case, task["n"], task["seed"], res, PROP, shrink=task["tier"] == "thorough")
    return res


def replay(case):
    if case.get("kind") == "processes":
        r = run_processes({"nproc": case.get("nproc", 6), "reps": case.get("reps", 10)})
        return [{"bucket": v["bucket"], "what": v["what"]} for v in r.violations]
    o = run_case(case)
    return [{"bucket": b, "what": w} for b, w in o["violations"]]
