"""C20 - Both storage backends implement the same contract (differential), the seekable S3 reader
behaves like a local file, and the retry layer masks transient / surfaces permanent errors."""
from __future__ import annotations

import io
import os

from botocore.exceptions import ClientError, EndpointConnectionError
from hypothesis import strategies as st

from ..common import Result, scratch_dir
from ..fakes3 import FakeS3, client_error, s3_env
from ..hyp import campaign

PROP = "C20"
LEVEL = "exploration"
RULE = ("(a) Hypothesis sequences (<=25 ops) of write_file/write_json/read_file/read_json/open_file/open_seekable/exists/list_files/delete_file/"
        "get_size/get_modified_time over a key space with sibling-prefix and nested names (data/a, data/b/c, data2/a, datafile, metadata/x, "
        "metadata.version-hint.text, leading '/'), with and without an S3 key prefix, executed on LocalStorageBackend and on S3StorageBackend over the "
        "in-memory S3 side by side; (b) seek/read programs (<=12 ops, whence 0/1/2, negative / inside / at / beyond EOF) over objects of sizes "
        "{0,1,2,255,256,2^20-1,2^20,2^20+1} on raw S3RangeFile vs io.FileIO and on open_seekable of both backends; (c) per-request fault plans "
        "(k transient then success, permanent at attempt 1, transient beyond budget) for every backend operation. Non-trivial: (a) the sequence "
        "contains a listing/existence query that distinguishes a directory from a sibling prefix, (b) a seek/read crosses EOF or the 1 MiB buffer "
        "boundary, (c) at least one fault injected. distinct = hash of the case.")
ASSUMPTIONS = ["the fake S3 is strongly consistent with MD5 ETags; exists()/list_files() are compared on exact file keys and directory names only",
               "mtimes are only checked for plausibility (within 5 s of the write), not equality"]
REQUIRED_LABELS = {"quick": ["a:sibling-query", "b:cross-eof", "c:transient", "c:permanent", "c:exhausted"], "thorough": ["a:sibling-query", "b:cross-eof"]}

KEYS = ["data/a", "data/b/c", "data/b/d", "data2/a", "datafile", "metadata/x", "metadata/manifests/m1", "metadata.version-hint.text",
        "metadata/inflight/i1", "d"]
DIRS = ["data", "data/b", "data2", "metadata", "metadata/manifests", "metadata/inflight", "nonexistent", "dat", "data/"]


@st.composite
def ops_case(draw):
    prefix = draw(st.sampled_from(["", "pfx", "a/b", "data"]))
    n = draw(st.integers(3, 25))
    ops = []
    for _ in range(n):
        k = draw(st.sampled_from(["write", "write", "write_json", "read", "read_json", "open", "seekable", "exists", "exists", "list", "list", "delete", "size", "mtime"]))
        key = draw(st.sampled_from(KEYS))
        if draw(st.integers(0, 5)) == 0:
            key = "/" + key
        if k == "write":
            ops.append({"op": k, "key": key, "data": draw(st.binary(max_size=20))})
        elif k == "write_json":
            ops.append({"op": k, "key": key, "obj": draw(st.dictionaries(st.sampled_from(["a", "b", "é"]), st.one_of(st.integers(-5, 5), st.text(max_size=3), st.none()), max_size=3))})
        elif k == "list":
            ops.append({"op": k, "prefix": draw(st.sampled_from(DIRS))})
        elif k == "exists":
            ops.append({"op": k, "key": draw(st.sampled_from(KEYS + ["data/ab", "data/", "metadata/", "dataf", "metadata.version"]))})
        else:
            ops.append({"op": k, "key": key})
    return {"kind": "ops", "prefix": prefix, "ops": ops}


def _apply(backend, op):
    """returns ('ok', value) or ('err', exception class name family)"""
    try:
        k = op["op"]
        if k == "write":
            backend.write_file(op["key"], op["data"])
            return ("ok", None)
        if k == "write_json":
            backend.write_json(op["key"], op["obj"])
            return ("ok", None)
        if k == "read":
            return ("ok", backend.read_file(op["key"]))
        if k == "read_json":
            return ("ok", backend.read_json(op["key"]))
        if k == "open":
            with backend.open_file(op["key"]) as f:
                return ("ok", f.read())
        if k == "seekable":
            f = backend.open_seekable(op["key"])
            try:
                return ("ok", f.read())
            finally:
                f.close()
        if k == "exists":
            return ("ok", bool(backend.exists(op["key"])))
        if k == "list":
            return ("ok", sorted(p.replace(os.sep, "/") for p in backend.list_files(op["prefix"])))
        if k == "delete":
            backend.delete_file(op["key"])
            return ("ok", None)
        if k == "size":
            return ("ok", backend.get_size(op["key"]))
        if k == "mtime":
            import time

            t = backend.get_modified_time(op["key"])
            return ("ok", abs(t - time.time()) < 5.0)
        raise ValueError(k)
    except FileNotFoundError:
        return ("err", "FileNotFoundError")
    except Exception as e:  # noqa
        return ("err", type(e).__name__)


def check_ops(case):
    import datashard.storage_backend as SB

    out = {"violations": [], "labels": [], "nontrivial": False}
    fake = FakeS3()
    with scratch_dir("c20") as d, s3_env(fake):
        local = SB.LocalStorageBackend(d + "/t")
        os.makedirs(d + "/t")
        s3 = SB.S3StorageBackend(bucket="bkt", prefix=case["prefix"])
        # an unrelated neighbour under a sibling key prefix must never show up
        if case["prefix"]:
            fake.raw_put(case["prefix"] + "2/data/zz", b"neighbour")
            fake.raw_put(case["prefix"] + "x", b"neighbour")
        present = set()
        for i, op in enumerate(case["ops"]):
            a = _apply(local, op)
            b = _apply(s3, op)
            if op["op"] in ("write", "write_json") and a[0] == "ok":
                present.add(op["key"].lstrip("/"))
            if op["op"] == "delete":
                present.discard(op["key"].lstrip("/"))
            if op["op"] == "list":
                pfx = op["prefix"].rstrip("/")
                if any(p.startswith(pfx) and not p.startswith(pfx + "/") for p in present):
                    out["nontrivial"] = True
                    out["labels"].append("a:sibling-query")
            if op["op"] == "exists":
                k = op["key"]
                if k not in present and any(p.startswith(k) for p in present):
                    out["labels"].append("a:sibling-query")
                    out["nontrivial"] = True
                # directory-ness is outside the contract ("existence of exact keys only"): compare only non-directory names
                if any(p.startswith(k.rstrip("/") + "/") for p in present) or k.endswith("/"):
                    continue
            if a != b:
                what = f"op {i} {op!r}: local -> {a!r}, s3 -> {b!r} (prefix={case['prefix']!r}, present={sorted(present)})"
                bucket = f"backend-differ/{op['op']}"
                if op["op"] == "list" and a[0] == b[0] == "ok":
                    extra = set(b[1]) - set(a[1])
                    bucket = "backend-differ/list-leaks-sibling" if extra else "backend-differ/list-misses"
                out["violations"].append((bucket, what))
                break
    return out


# ---------------------------------------------------------------------------------------------
SIZES = [0, 1, 2, 255, 256, 2**20 - 1, 2**20, 2**20 + 1]


@st.composite
def seek_case(draw):
    size = draw(st.sampled_from(SIZES))
    target = draw(st.sampled_from(["raw", "seekable_s3"]))
    n = draw(st.integers(1, 12))
    near = [0, 1, 2, size - 2, size - 1, size, size + 1, size + 5, 2**20 - 1, 2**20, 2**20 + 1, size // 2]
    off = st.one_of(st.sampled_from(near), st.integers(-3, 3), st.sampled_from(near).map(lambda x: -x))
    ops = []
    for _ in range(n):
        k = draw(st.sampled_from(["seek", "seek", "read", "read", "readall", "readinto", "tell"]))
        if k == "seek":
            ops.append(["seek", draw(off), draw(st.sampled_from([0, 0, 1, 2, 2]))])
        elif k in ("read", "readinto"):
            ops.append([k, draw(st.one_of(st.sampled_from([0, 1, 2, 3, 255, 256, 257, 2**20, 2**20 + 7, size, size + 1]), st.integers(0, 10)))])
        else:
            ops.append([k])
    return {"kind": "seek", "size": size, "target": target, "ops": ops, "seed": draw(st.integers(0, 255))}


def _content(size, seed):
    blk = bytes((i * 7 + seed) % 251 for i in range(4099))
    return (blk * (size // len(blk) + 1))[:size]


def _run_prog(f, ops):
    res = []
    for op in ops:
        try:
            if op[0] == "seek":
                res.append(("seek", f.seek(op[1], op[2])))
            elif op[0] == "read":
                r = f.read(op[1])
                res.append(("read", r))
            elif op[0] == "readall":
                res.append(("readall", f.read()))
            elif op[0] == "readinto":
                b = bytearray(op[1])
                n = f.readinto(b)
                res.append(("readinto", n, bytes(b[: n or 0])))
            else:
                res.append(("tell", f.tell()))
        except (ValueError, OSError) as e:
            res.append(("error",))
        except Exception as e:  # noqa
            res.append(("other-error", type(e).__name__))
    return res


def check_seek(case):
    import datashard.storage_backend as SB

    out = {"violations": [], "labels": [f"b:{case['target']}"], "nontrivial": False}
    size = case["size"]
    data = _content(size, case["seed"])
    fake = FakeS3()
    with scratch_dir("c20s") as d, s3_env(fake):
        p = os.path.join(d, "obj")
        with open(p, "wb") as fh:
            fh.write(data)
        fake.raw_put("k/obj", data)
        if case["target"] == "raw":
            ref = io.FileIO(p, "r")
            sut = SB.S3RangeFile(fake, "bkt", "k/obj", size)
        else:
            ref = open(p, "rb")
            try:
                sut = SB.S3StorageBackend(bucket="bkt", prefix="k").open_seekable("obj")
            except Exception as e:  # noqa - the local backend opens this object (the file exists): the S3 side must as well
                ref.close()
                out["nontrivial"] = True
                out["violations"].append((f"seekable-differs/open-raises/{type(e).__name__}", f"open_seekable on an existing {size}-byte object raised {type(e).__name__}: {str(e)[:100]} (the local backend opens it)"))
                return out
        fake.log.clear()
        try:
            a = _run_prog(ref, case["ops"])
            b = _run_prog(sut, case["ops"])
        finally:
            ref.close()
            sut.close()
        # EOF / buffer crossing label
        pos = 0
        for r in a:
            if r[0] in ("read", "readall") and isinstance(r[1], bytes):
                pass
        if any((op[0] == "seek") for op in case["ops"]) and any(r[0] in ("read", "readall", "readinto") for r in a):
            out["nontrivial"] = True
        if any(r[0] == "read" and len(r[1]) < op[1] for r, op in zip(a, case["ops"]) if r[0] == "read") or any(r == ("readall", b"") for r in a) or size >= 2**20:
            out["labels"].append("b:cross-eof")
        if a != b:
            i = next(i for i, (x, y) in enumerate(zip(a, b)) if x != y)
            short = lambda r: tuple((len(v), v[:8]) if isinstance(v, bytes) else v for v in r)
            out["violations"].append((f"seekable-differs/{case['target']}/{case['ops'][i][0]}",
                                      f"size={size} program={case['ops'][:i + 1]!r}: local file -> {short(a[i])!r}, S3 reader -> {short(b[i])!r}"))
        # ranges in range
        asked = sum((op[1] if op[0] in ("read", "readinto") else 0) for op in case["ops"])
        got_bytes = 0
        for op, key, info in fake.log:
            if op == "get" and info.get("range") is not None:
                first, last = info["range"]
                if not (0 <= first <= last <= size - 1):
                    out["violations"].append((f"range-out-of-bounds/{case['target']}", f"size={size}: requested bytes={first}-{last}; program={case['ops']!r}"))
                    break
                got_bytes += last - first + 1
        if case["target"] == "raw" and not any(op[0] == "readall" for op in case["ops"]) and got_bytes > asked:
            out["violations"].append(("range-overfetch/raw", f"size={size}: program asked for {asked} bytes, raw reader requested {got_bytes}; program={case['ops']!r}"))
    return out


# ---------------------------------------------------------------------------------------------
TRANSIENT = ["SlowDown", "InternalError", "503", "RequestTimeout", "ServiceUnavailable", "OperationAborted", "TooManyRequests", "Throttling", "botocore", "oserror", "conn_closed", "read_timeout", "response_streaming", "incomplete_read", "http_client"]
PERMANENT = ["AccessDenied", "InvalidAccessKeyId", "NoSuchBucket", "403", "SignatureDoesNotMatch"]
FOPS = ["read_file", "write_file", "exists_present", "exists_absent", "list_files", "delete_file", "get_size", "get_modified_time", "open_file",
        "read_file_with_etag", "write_file_cas", "range_read", "open_seekable"]


@st.composite
def fault_case(draw):
    op = draw(st.sampled_from(FOPS))
    plan = draw(st.sampled_from(["transient", "transient", "permanent", "exhausted"]))
    if plan == "transient":
        k = draw(st.integers(1, 5))
        kinds = [draw(st.sampled_from(TRANSIENT)) for _ in range(k)]
    elif plan == "permanent":
        kinds = [draw(st.sampled_from(PERMANENT))]
    else:
        kinds = [draw(st.sampled_from(TRANSIENT)) for _ in range(draw(st.integers(6, 8)))]
    # position (request index within an attempt) at which each fault is injected: 0 = first request; listings have one request per page
    # (only a listing is ONE retried unit made of several requests; the other calls retry each request on its own)
    pos = [draw(st.integers(0, 3)) if op == "list_files" else 0 for _ in kinds]
    # for calls that read the response body inside the retried unit the fault may also hit WHILE the body is streamed
    where = draw(st.sampled_from(["request", "request", "body"])) if op in ("read_file", "read_file_with_etag", "range_read") and plan != "permanent" else "request"
    return {"kind": "fault", "op": op, "plan": plan, "faults": kinds, "pos": pos, "where": where}


_STATUS_4XX = {"RequestTimeout": 400, "OperationAborted": 409, "TooManyRequests": 429, "Throttling": 400}


def _mk_exc(kind):
    if kind == "botocore":
        return EndpointConnectionError(endpoint_url="http://x")
    if kind == "oserror":
        return ConnectionResetError("reset")
    # transport failures botocore raises as BotoCoreError subclasses that are neither its ConnectionError nor OSErrors
    import botocore.exceptions as BE

    if kind == "conn_closed":
        return BE.ConnectionClosedError(endpoint_url="http://x")
    if kind == "read_timeout":
        return BE.ReadTimeoutError(endpoint_url="http://x")
    if kind == "response_streaming":
        return BE.ResponseStreamingError(error="connection broken")
    if kind == "incomplete_read":
        return BE.IncompleteReadError(actual_bytes=1, expected_bytes=10)
    if kind == "http_client":
        return BE.HTTPClientError(error="transport")
    # transient conditions S3 reports with a 4xx status keep that status (RequestTimeout 400, OperationAborted 409 "try again", throttling 429/400)
    return client_error(kind, "Op", _STATUS_4XX.get(kind, 503) if kind not in PERMANENT else 403)


def _call(s3, fake, op):
    if op == "read_file":
        return s3.read_file("data/a")
    if op == "write_file":
        s3.write_file("data/new", b"new")
        return fake.objects["p/data/new"]["body"]
    if op == "exists_present":
        return s3.exists("data/a")
    if op == "exists_absent":
        return s3.exists("data/zz")
    if op == "list_files":
        return sorted(s3.list_files("data"))
    if op == "delete_file":
        s3.delete_file("data/a")
        return "p/data/a" in fake.objects
    if op == "get_size":
        return s3.get_size("data/a")
    if op == "get_modified_time":
        return s3.get_modified_time("data/a")
    if op == "open_file":
        with s3.open_file("data/a") as f:
            return f.read()
    if op == "read_file_with_etag":
        return s3.read_file_with_etag("data/a")
    if op == "write_file_cas":
        s3.write_file_cas("data/cas", b"v", None)
        return fake.objects["p/data/cas"]["body"]
    if op == "range_read":
        import datashard.storage_backend as SB

        f = SB.S3RangeFile(fake, "bkt", "p/data/a", 5)
        f.seek(1)
        return f.read(3)
    if op == "open_seekable":
        f = s3.open_seekable("data/a")
        try:
            return f.read()
        finally:
            f.close()
    raise ValueError(op)


def _fresh(fake):
    fake.objects.clear()
    fake.raw_put("p/data/a", b"hello")
    fake.raw_put("p/data/b", b"x")
    fake.raw_put("p/data/c", b"y")
    for i in range(4):
        fake.raw_put(f"p/data/part-{i}", b"z")
    fake.log.clear()


def check_fault(case):
    import datashard.storage_backend as SB

    out = {"violations": [], "labels": [f"c:{case['plan']}", f"c:op:{case['op']}"] + (["c:body-read-fault"] if case.get("where") == "body" else []), "nontrivial": True}
    fake = FakeS3()
    with s3_env(fake) as vt:
        s3 = SB.S3StorageBackend(bucket="bkt", prefix="p")
        _fresh(fake)
        clean = _call(s3, fake, case["op"])
        clean_reqs = len(fake.log)
        _fresh(fake)
        pending = list(case["faults"])
        raised_objs = []
        state = {"in_attempt": 0, "reqs": 0}

        positions = list(case.get("pos") or [0] * len(pending))

        where = case.get("where", "request")

        def hook(phase, op, key, req):
            if where == "body":
                if phase == "before":
                    state["reqs"] += 1
                if phase == "body" and pending:
                    k = pending.pop(0)
                    # mid-body failures are connection-level errors (an S3 error CODE cannot arrive once the body is streaming)
                    e = _mk_exc(k if k in ("botocore", "oserror") else "oserror")
                    raised_objs.append(e)
                    raise e
                return
            if phase != "before":
                return
            state["reqs"] += 1
            # inject at the chosen request of an attempt (clamped to the attempt's length); a failed attempt restarts from request 0
            if pending and state["in_attempt"] == min(positions[0], clean_reqs_per_attempt - 1):
                e = _mk_exc(pending.pop(0))
                positions.pop(0)
                raised_objs.append(e)
                state["in_attempt"] = 0
                raise e
            state["in_attempt"] += 1
            if state["in_attempt"] >= clean_reqs_per_attempt:
                state["in_attempt"] = 0

        clean_reqs_per_attempt = max(clean_reqs, 1)
        fake.hook = hook
        try:
            got = ("ok", _call(s3, fake, case["op"]))
        except BaseException as e:  # noqa
            got = ("err", e)
        fake.hook = None
        nf = len(case["faults"])
        injected = len(raised_objs)
        op, plan = case["op"], case["plan"]
        if op == "write_file_cas":
            # conditional PUTs are never retried: the first fault surfaces, exactly one attempt
            if got[0] != "err" or injected != 1:
                out["violations"].append(("retry/cas-retried", f"write_file_cas with faults {case['faults']}: outcome {got[0]}, attempts {injected}"))
            return out
        if plan == "transient":
            if got[0] != "ok":
                out["violations"].append((f"retry/transient-not-masked/{op}", f"{op} with {nf} transient fault(s) {case['faults']} raised {type(got[1]).__name__}: {str(got[1])[:100]}"))
            else:
                same = got[1] == clean if op != "get_modified_time" else abs(got[1] - clean) < 5
                if not same:
                    out["violations"].append((f"retry/result-changed/{op}", f"{op}: fault-free {clean!r}, with {nf} transient fault(s) {got[1]!r}"))
                if injected != nf:
                    out["violations"].append((f"retry/attempts/{op}", f"{op}: {nf} faults planned, {injected} consumed"))
        elif plan == "permanent":
            if got[0] != "err":
                out["violations"].append((f"retry/permanent-swallowed/{op}", f"{op} returned {got[1]!r} although the request failed with {case['faults'][0]}"))
            elif got[1] is not raised_objs[0] or injected != 1 or state["reqs"] != min(case.get("pos", [0])[0], clean_reqs_per_attempt - 1) + 1:
                out["violations"].append((f"retry/permanent-retried/{op}", f"{op}: permanent error {case['faults'][0]} -> raised {type(got[1]).__name__}, requests issued {state['reqs']} (expected 1)"))
        else:
            if got[0] != "err":
                out["violations"].append((f"retry/exhausted-swallowed/{op}", f"{op} returned {got[1]!r} although all 6 attempts failed"))
            elif injected != 6 or got[1] is not raised_objs[-1]:
                out["violations"].append((f"retry/budget/{op}", f"{op}: {injected} attempts (expected 6), raised {type(got[1]).__name__}"))
    return out


def run_big_listing(task):
    """Listings far beyond one page and beyond 1000 keys (the size of a real ListObjectsV2 page and a tempting constant):
    list_files must return every key under the directory, exactly once, on both backends."""
    import datashard.storage_backend as SB

    res = Result()
    for page in task["pages"]:
        for nkeys in task["sizes"]:
            fake = FakeS3(page_size=page)
            with s3_env(fake):
                want = set()
                for i in range(nkeys):
                    sub = ("inflight", "manifests", "")[i % 3]
                    rel = f"metadata/{sub + '/' if sub else ''}k{i:05d}"
                    fake.raw_put("wh/t/" + rel, b"x")
                    want.add(rel)
                fake.raw_put("wh/t/metadata.version-hint.text", b"v1")
                fake.raw_put("wh/t2/metadata/zz", b"n")
                s3 = SB.S3StorageBackend(bucket="bkt", prefix="wh/t")
                case = {"kind": "biglist", "nkeys": nkeys, "page": page}
                try:
                    got = list(s3.list_files("metadata"))
                except Exception as e:  # noqa
                    res.violation(f"big-listing/raises/{type(e).__name__}", f"list_files('metadata') over {nkeys} keys ({page} per page) raised {type(e).__name__}: {str(e)[:100]}", case)
                    continue
                res.case(key=f"biglist|{nkeys}|{page}", nontrivial=True, labels=["big-listing"], sample=case)
                gs = {g.lstrip("/") for g in got}
                if gs != want or len(got) != len(gs):
                    res.violation("big-listing/incomplete", f"list_files('metadata') over {nkeys} keys ({page} keys per page): returned {len(got)} paths ({len(gs)} distinct), "
                                  f"{len(want - gs)} missing (e.g. {sorted(want - gs)[:2]}), {len(gs - want)} unexpected", case)
    return res


def plan(tier, seed):
    q = tier == "quick"
    tasks = [{"kind": "ops", "n": 1500 if q else 15000, "seed": seed * 1000 + s, "tier": tier} for s in range(6)]
    tasks += [{"kind": "seek", "n": 1500 if q else 30000, "seed": seed * 1000 + 100 + s, "tier": tier} for s in range(6)]
    tasks += [{"kind": "fault", "n": 800 if q else 8000, "seed": seed * 1000 + 200 + s, "tier": tier} for s in range(4)]
    tasks += [{"kind": "biglist", "sizes": [999, 1000, 1001, 2500], "pages": [1000, 100]}]
    return tasks


def run_task(task):
    if task["kind"] == "biglist":
        return run_big_listing(task)
    res = Result()
    strat, chk = {"ops": (ops_case(), check_ops), "seek": (seek_case(), check_seek), "fault": (fault_case(), check_fault)}[task["kind"]]
    campaign(strat, chk, task["n"], task["seed"], res, PROP, shrink=task["tier"] == "thorough")
    return res


def replay(case):
    if case["kind"] == "biglist":
        r = run_big_listing({"sizes": [case["nkeys"]], "pages": [case["page"]]})
        return [{"bucket": v["bucket"], "what": v["what"]} for v in r.violations]
    chk = {"ops": check_ops, "seek": check_seek, "fault": check_fault}[case["kind"]]
    o = chk(case)
    return [{"bucket": b, "what": w} for b, w in o["violations"]]
