"""C06 - Garbage collection is safe against concurrently committing transactions."""
from __future__ import annotations

import os
import time

from hypothesis import strategies as st

from ..common import Result, chash, scratch_dir
from ..conc import run_scheduled
from ..hist import FIELDS
from ..hyp import campaign
from ..reader import ReadError, read_view, rows_multiset, current_rows, current_snapshot
from ..tbl import make_schema
from . import c04
from .c01 import build_base

PROP = "C06"
HINT_KEY = "metadata.version-hint.text"
LEVEL = "exploration"
RULE = ("One collector (garbage_collect with grace 1 h or 10 h) + 1-2 transactions (append, multi-append, delete_files; committing, retrying after losing a "
        "race, or rolling back) on local and conditional-write S3. A transaction may have done its append_data BEFORE the run (long-running load): its data "
        "file is then aged 2 h, i.e. older than the grace period when it commits; a SLOW committer has every data file, manifest and manifest list it "
        "completes before the collector's first step aged 2 h right after writing it (a stall longer than the grace period, shorter than the 24 h marker timeout, between any write and the commit point); "
        "optionally the collector runs TWICE in a row (a periodic collector) while the long-open transaction's markers are as old as its files; "
        "the base may hold a two-file manifest so that delete_files rewrites it; on object storage a transaction's pointer PUT may time out on every attempt while "
        "the first request lands after everybody has finished (ambiguous outcome that turns out committed). Grace is never 0. Interleavings are owned by the deterministic scheduler: exhaustive single-preemption enumeration for "
        "fixed scenarios and Hypothesis PCT schedules (<=3 change points) over generated ones. Oracle when all actors have finished: every file of every "
        "snapshot in the final metadata exists and verifies (independent reader), and the rows of every acknowledged transaction are readable; a collector "
        "raising GarbageCollectionAborted is acceptable. Non-trivial: the collector's metadata read, marker read and listings did not all fall on the same "
        "side of a transaction's pointer flip. distinct = (scenario, schedule).")
ASSUMPTIONS = ["orphans planted for the collector are 2 h old; in-flight markers are fresh, or 2 h old (older than the grace period, far younger than the 24 h timeout) for slow / long-open transactions", "the collector and the transactions use separate handles"]
REQUIRED_LABELS = {"quick": ["gc-straddles-flip", "preaged-file", "world:s3cas"], "thorough": ["gc-straddles-flip"]}


def _age_new_data(world, before, seconds, markers=False):
    now_files = set(world.fs().list("data"))
    extra = []
    if markers:
        # the transaction has been open for that long: its in-flight markers are as old as its files (still far younger than 24 h)
        try:
            extra = world.fs().list("metadata/inflight")
        except Exception:
            extra = []
    for rel in list(now_files - before) + extra:
        if world.kind == "local":
            t = time.time() - seconds
            os.utime(os.path.join(world.root, rel), (t, t))
        else:
            world.fake.age(seconds, world.key_prefix + "/" + rel)


def _slow_listing(world):
    # everything a slow committer leaves behind before its commit point: data files, manifests / lists AND its in-flight markers
    out = world.fs().list("data") + world.fs().list("metadata/manifests")
    try:
        out += world.fs().list("metadata/inflight")
    except Exception:
        pass
    return out


def run_case(case):
    out = {"violations": [], "labels": [], "nontrivial": False}
    sc = case["sc"]
    with scratch_dir("c06") as d:
        world = c04.make_world(d, sc["world"])
        base = build_base(world, sc["nprior"])
        if sc.get("multi_base"):
            # one manifest holding two data files: deleting one of them REWRITES the manifest (partial delete)
            with world.env():
                tb = world.open()
                with tb.new_transaction() as txb:
                    txb.append_data([{"k": 50, "s": "mb1"}])
                    txb.append_data([{"k": 51, "s": "mb2"}])
                    txb.commit()
            base = read_view(world.fs())
        # an old orphan so that the collector has something to do
        if world.kind == "local":
            p = os.path.join(world.root, "data", "orphan_old.parquet")
            open(p, "wb").write(b"orphan")
            tt = time.time() - 7200
            os.utime(p, (tt, tt))
        else:
            world.fake.raw_put(world.key_prefix + "/data/orphan_old.parquet", b"orphan")
        if world.kind != "local":
            world.fake.age(7200, world.key_prefix + "/data/")
        else:
            for rel in world.fs().list("data") + world.fs().list("metadata/manifests"):
                tt = time.time() - 7200
                os.utime(os.path.join(world.root, rel), (tt, tt))
        marks = {"meta": None, "markers": None, "list": []}
        expected_rows = {}

        seen_files = set(_slow_listing(world)) if sc.get("slow") else None
        gc_started = [False]

        # 'late' transactions (object storage): every attempt of their pointer PUT times out on the client side, but the FIRST
        # request is still on its way and lands after everybody has finished - the commit was ambiguous and turns out committed
        late_tx = {f"tx{i}" for i, txs in enumerate(sc["txs"]) if txs.get("late") and world.kind != "local"}
        in_flight = {}

        def on_event(sch, a, phase, label, target, info):
            if a.name in late_tx and phase == "before" and label.startswith("s3:put") and target == HINT_KEY:
                from botocore.exceptions import ReadTimeoutError

                in_flight.setdefault(a.name, dict(info))
                raise ReadTimeoutError(endpoint_url="http://fake-s3")
            if a.name == "gc":
                gc_started[0] = True
            if seen_files is not None and not gc_started[0] and a.name != "gc" and phase == "after" and ("write" in label or "replace" in label or "put" in label):
                # a SLOW committer: every data file / manifest / manifest list it completes BEFORE the collector starts is already
                # 2 h old (older than the grace period, younger than the 24 h marker timeout) by the time it takes its next step.
                # Files written after the collector has started stay fresh ('the grace period exceeds the duration of the run').
                now = set(_slow_listing(world))
                for rel in now - seen_files:
                    if rel.rsplit("/", 1)[-1].startswith(".tmp"):
                        now.discard(rel)  # not a complete file yet: aged once it has its final name
                        continue
                    if world.kind == "local":
                        tt = time.time() - 7200
                        try:
                            os.utime(os.path.join(world.root, rel), (tt, tt))
                        except OSError:
                            pass
                    else:
                        world.fake.age(7200, world.key_prefix + "/" + rel)
                seen_files.update(now)
            if a.name != "gc" or phase != "before":
                return
            if marks["meta"] is None and target.startswith("metadata/v") and ("read" in label or "get" in label):
                marks["meta"] = sch.global_steps
            if "list" in label and "inflight" in target and marks["markers"] is None:
                marks["markers"] = sch.global_steps
            if "list" in label and (target.rstrip("/").endswith("data") or target.rstrip("/").endswith("manifests")):
                marks["list"].append(sch.global_steps)

        def make_actors(w, sch, clk):
            actors = []
            tgc = w.open()
            grace = sc.get("grace_ms", 3600000)

            def gc():
                from datashard import GarbageCollectionAborted

                r = None
                for _ in range(2 if sc.get("gc_twice") else 1):
                    # a periodic collector: the second run sees whatever the first one left (and removed)
                    try:
                        r = ("ok", tgc.garbage_collect(grace_period_ms=grace))
                    except GarbageCollectionAborted as e:
                        r = ("aborted", str(e)[:80])
                return r

            actors.append(("gc", gc))
            for i, txs in enumerate(sc["txs"]):
                t = w.open()
                rows = [{"k": 100 + 10 * i + j, "s": f"t{i}"} for j in range(txs.get("n", 1))]
                kind = txs["op"]
                if kind in ("append", "multi"):
                    tx = t.new_transaction().begin()
                    pre = bool(txs.get("preaged"))
                    if pre:
                        before = set(w.fs().list("data"))
                        sch_enabled = True
                        tx.append_data(rows)
                        if kind == "multi":
                            tx.append_data([{"k": 900 + i, "s": f"t{i}b"}])
                        _age_new_data(w, before, 7200, markers=bool(sc.get("gc_twice")))

                    def f(tx=tx, pre=pre, rows=rows, kind=kind, i=i, end=txs.get("end", "commit")):
                        if not pre:
                            tx.append_data(rows)
                            if kind == "multi":
                                tx.append_data([{"k": 900 + i, "s": f"t{i}b"}])
                        if end == "rollback":
                            tx.rollback()
                            return "rolled-back"
                        return tx.commit()

                    if txs.get("end", "commit") == "commit":
                        expected_rows[len(actors)] = rows + ([{"k": 900 + i, "s": f"t{i}b"}] if kind == "multi" else [])
                    actors.append((f"tx{i}", f))
                elif kind == "delete":
                    files = sorted(current_snapshot(base)["files"])
                    p = files[txs.get("which", 0) % len(files)]

                    def f(t=t, p=p):
                        with t.new_transaction() as tx2:
                            tx2.delete_files([p])
                            return tx2.commit()

                    actors.append((f"tx{i}", f))
            return actors

        run = run_scheduled(world, make_actors, case["schedule"], seed=case.get("seed", 0), on_event=on_event)
        for name, req in in_flight.items():
            # the delayed request reaches the store now (its precondition is evaluated at landing)
            try:
                world.fake.put_object(Bucket="bkt", Key=world.key_prefix + "/" + HINT_KEY, Body=req["body"], IfMatch=req.get("IfMatch"), IfNoneMatch=req.get("IfNoneMatch"))
                out["labels"].append("late-pointer-write-landed")
            except Exception:
                out["labels"].append("late-pointer-write-rejected")
        out["labels"] += [f"world:{sc['world']}"] + (["preaged-file"] if any(t.get("preaged") for t in sc["txs"]) else [])
        out["labels"] += (["slow-committer"] if sc.get("slow") else []) + (["collector-runs-twice"] if sc.get("gc_twice") else []) + (["partial-manifest-delete"] if sc.get("multi_base") and any(t["op"] == "delete" for t in sc["txs"]) else [])
        if run.error is not None:
            out["violations"].append((f"scheduler/{type(run.error).__name__}", str(run.error)[:200]))
            return out
        gc_out = run.outcomes[0]
        if gc_out[0] == "raise":
            out["labels"].append(f"gc-raised:{type(gc_out[1]).__name__}")
        else:
            out["labels"].append(f"gc:{gc_out[1][0]}")
        pts = [x for x in [marks["meta"], marks["markers"]] + marks["list"] if x is not None]
        for step, aidx, _c in run.flips:
            if pts and min(pts) < step < max(pts):
                out["labels"].append("gc-straddles-flip")
                out["nontrivial"] = True
        # ---- oracle
        try:
            v = read_view(world.fs(), rows=True, verify=True)
        except ReadError as e:
            kind = "data" if "data file" in str(e) else ("manifest" if "manifest" in str(e) else "metadata")
            out["violations"].append((f"committed-file-deleted/{kind}", f"after collector and transactions finished the table is unreadable: {e} (gc saw metadata at step {marks['meta']}, markers at {marks['markers']}, flips at {[f[0] for f in run.flips]})"))
            return out
        have = current_rows(v)
        for aidx, rows in expected_rows.items():
            oc, val = run.outcomes[aidx]
            if oc == "ok" and val is True:
                miss = rows_multiset(rows) - have
                if miss:
                    out["violations"].append(("acknowledged-rows-missing", f"transaction actor {aidx} committed but its rows are not in the final table"))
            elif oc == "raise":
                out["labels"].append(f"tx-raised:{type(val).__name__}")
                if type(val).__name__ in ("FileNotFoundError",):
                    out["violations"].append((f"transaction-lost-its-file/{type(val).__name__}", f"transaction actor {aidx} failed because its in-flight file vanished: {str(val)[:120]}"))
        out["decisions"] = run.sched.decisions
    return out


FIXED = [
    {"world": "local", "nprior": 2, "txs": [{"op": "append", "preaged": True}]},
    {"world": "local", "nprior": 1, "txs": [{"op": "multi", "preaged": True}, {"op": "append", "preaged": True}]},
    {"world": "s3cas", "nprior": 2, "txs": [{"op": "append", "preaged": True}]},
    {"world": "local", "nprior": 2, "txs": [{"op": "delete", "which": 0}, {"op": "append", "preaged": True}], "grace_ms": 36000000},
    {"world": "s3cas", "nprior": 1, "txs": [{"op": "append", "preaged": True, "end": "rollback"}, {"op": "append"}]},
    {"world": "local", "nprior": 1, "multi_base": True, "slow": True, "txs": [{"op": "delete", "which": 1}]},
    {"world": "local", "nprior": 1, "slow": True, "txs": [{"op": "multi"}, {"op": "append"}]},
    {"world": "s3cas", "nprior": 1, "txs": [{"op": "append", "preaged": True, "late": True}]},
    {"world": "local", "nprior": 1, "gc_twice": True, "txs": [{"op": "multi", "preaged": True}]},
    {"world": "s3cas", "nprior": 1, "gc_twice": True, "slow": True, "txs": [{"op": "append"}]},
    {"world": "local", "nprior": 1, "slow": True, "depth2": True, "txs": [{"op": "append"}]},
]


def run_enum(task):
    res = Result()
    sc = task["sc"]
    n = 1 + len(sc["txs"])
    o = run_case({"kind": "sched", "sc": sc, "schedule": {"order": list(range(n))}, "seed": 1})
    D = o.get("decisions", 80)
    scheds = []
    for order in (list(range(n)), list(reversed(range(n)))):
        scheds.append({"order": order})
        for i in range(1, int(D * 1.15) + 2):
            for j in range(n):
                scheds.append({"order": order, "preempt": [[i, j]]})
    if sc.get("depth2"):
        # the transaction is parked at decision i, the collector runs k decisions (into its sweeps), the transaction runs to completion
        # (commits and clears its markers), then the collector finishes: whatever the collector learnt before must still protect / be re-read
        for i in range(1, min(D, 70) + 1):
            for k in range(1, 81):
                scheds.append({"order": [1, 0], "preempt": [[i, 0], [i + k, 1]]})
    for idx, schd in enumerate(scheds):
        if idx % task["nshard"] != task["shard"]:
            continue
        case = {"kind": "sched", "sc": sc, "schedule": schd, "seed": 1}
        o = run_case(case)
        res.case(key=chash(case), nontrivial=o["nontrivial"], labels=sorted(set(o["labels"])) + ["enum-depth2" if len(schd.get("preempt", [])) == 2 else "enum-depth1"], sample=case if o["nontrivial"] and idx % 31 == 0 else None)
        for b, w in o["violations"]:
            res.violation(b, w + f" [scenario {sc}, schedule {schd}]", case)
    res.extra["depth1_enumeration_complete_for_fixed_scenarios"] = True
    return res


@st.composite
def pct_case(draw):
    world = draw(st.sampled_from(["local", "local", "s3cas"]))
    txs = []
    for _ in range(draw(st.integers(1, 2))):
        op = draw(st.sampled_from(["append", "append", "multi", "delete"]))
        txs.append({"op": op, "preaged": draw(st.booleans()), "end": draw(st.sampled_from(["commit", "commit", "commit", "rollback"])), "which": draw(st.integers(0, 2)),
                    "late": draw(st.integers(0, 5)) == 0})
    n = 1 + len(txs)
    order = draw(st.permutations(list(range(n))))
    pre = [[draw(st.integers(1, 200)), draw(st.integers(0, n - 1))] for _ in range(draw(st.integers(0, 3)))]
    return {"kind": "sched", "sc": {"world": world, "nprior": draw(st.integers(1, 3)), "txs": txs, "grace_ms": draw(st.sampled_from([3600000, 36000000])),
                                    "multi_base": draw(st.booleans()), "slow": draw(st.booleans()), **({"gc_twice": True} if draw(st.integers(0, 2)) == 0 else {})},
            "schedule": {"order": list(order), "preempt": sorted(pre)}, "seed": draw(st.integers(0, 3))}


def plan(tier, seed):
    tasks = []
    for sc in FIXED:
        ns = 12 if sc.get("depth2") else 3
        for s in range(ns):
            tasks.append({"kind": "enum", "sc": sc, "shard": s, "nshard": ns})
    n = 150 if tier == "quick" else 3000
    for s in range(4 if tier == "quick" else 16):
        tasks.append({"kind": "pct", "n": n, "seed": seed * 1000 + s, "tier": tier})
    return tasks


def run_task(task):
    if task["kind"] == "enum":
        return run_enum(task)
    res = Result()
    campaign(pct_case(), run_case, task["n"], task["seed"], res, PROP, shrink=task["tier"] == "thorough")
    return res


def replay(case):
    o = run_case(case)
    return [{"bucket": b, "what": w} for b, w in o["violations"]]
