"""C05 - Garbage collection never deletes anything reachable or in flight (and does remove old orphans)."""
from __future__ import annotations

from hypothesis import strategies as st

from ..common import Result
from ..hist import history_strategy
from ..hyp import campaign
from ._histprop import LOCATION_KINDS, run_history
from .c15 import _fix_steps

PROP = "C05"
LEVEL = "exploration"
RULE = ("Hypothesis histories (3-22 steps) of append / multi-append / delete_files / expire / delete_snapshot / open a transaction and append_data without "
        "committing / commit or roll back an open transaction / plant orphans (data, manifest, manifest list, temp leftover) / age files / "
        "garbage_collect(grace in {0, 1h, 10h}), crossed with 17 spellings of the table location (absolute, trailing slash, relative, ./rel, doubled slash, "
        "x/../x, via absolute and relative symlink, names that are string prefixes of the internal directory names: d, data, dat, m, metadata, meta, "
        "data/data). Oracle per collection: deleted = listing before - listing after must not intersect the independently computed reachable set of ALL "
        "retained snapshots nor the files registered by live transactions; a collection that raises deleted nothing; every retained snapshot reads back "
        "identical rows; every unreferenced unprotected data/manifest file older than grace (+5 s margin) is gone. Non-trivial: a collection ran with an "
        "eligible orphan and >=2 retained snapshots, or with a live transaction. distinct = hash of (spelling, history).")
ASSUMPTIONS = ["ages are set with os.utime, not waited for; in-flight markers are kept fresh (younger than 24 h = live transaction)",
               "local backend here; S3 prefixes are exercised by the S3 variant when the fake store is available"]
REQUIRED_LABELS = {"quick": ["gc", "gc-eligible-orphan", "gc-with-live-txn", "gc-with>=2-snapshots"], "thorough": ["gc", "gc-eligible-orphan", "gc-with-live-txn"]}


@st.composite
def case_strategy(draw):
    loc = draw(st.sampled_from(LOCATION_KINDS))
    steps = draw(history_strategy(20, gc=True, clock_ticks="none", props_ops=False, open_txn=True))
    # make sure there is at least one collection, preceded by ageing
    tail = [{"op": "age", "s": draw(st.sampled_from([7200, 90000]))}, {"op": "gc", "grace_ms": draw(st.sampled_from([0, 3600000]))}]
    return {"kind": "history", "location": loc, "steps": steps + tail}


def check_history(case):
    vios, labels, facts = run_history(PROP, case["steps"], location_kind=case["location"])
    L = set(labels)
    nontrivial = ("gc-eligible-orphan" in L and "gc-with>=2-snapshots" in L) or "gc-with-live-txn" in L
    vios = [(b + ("" if b.startswith("op-raised") else ""), w) for b, w in vios]
    return {"violations": vios, "labels": sorted(L) + [f"loc:{case['location']}"], "nontrivial": nontrivial}


def plan(tier, seed):
    n = 200 if tier == "quick" else 3000
    return [{"n": n, "seed": seed * 1000 + s, "tier": tier} for s in range(16)]


def run_task(task):
    res = Result()
    campaign(case_strategy(), check_history, task["n"], task["seed"], res, PROP, shrink=task["tier"] == "thorough")
    return res


def replay(case):
    _fix_steps(case["steps"])
    o = check_history(case)
    return [{"bucket": b, "what": w} for b, w in o["violations"]]
