"""C05 - Garbage collection never deletes anything reachable or in flight (and does remove old orphans)."""
from __future__ import annotations

from hypothesis import strategies as st

from ..common import Result
from ..hist import history_strategy
from ..hyp import campaign
from ._histprop import LOCATION_KINDS, run_history
from .c15 import _fix_steps

PROP = "C05"
LEVEL = "exploration"
RULE = ("Hypothesis histories (3-22 steps) of append / multi-append / delete_files / expire / delete_snapshot / open a transaction and append_data without "
        "committing / commit or roll back an open transaction / plant orphans (data, manifest, manifest list, temp leftover) / age files / "
        "garbage_collect(grace in {0, 1h, 10h}), crossed with 17 spellings of the table location (absolute, trailing slash, relative, ./rel, doubled slash, "
        "x/../x, via absolute and relative symlink, names that are string prefixes of the internal directory names: d, data, dat, m, metadata, meta, "
        "data/data). Oracle per collection: deleted = listing before - listing after must not intersect the independently computed reachable set of ALL "
        "retained snapshots nor the files registered by live transactions; a collection that raises deleted nothing; every retained snapshot reads back "
        "identical rows; every unreferenced unprotected data/manifest file older than grace (+5 s margin) is gone. Non-trivial: a collection ran with an "
        "eligible orphan and >=2 retained snapshots, or with a live transaction. distinct = hash of (spelling, history).")
ASSUMPTIONS = ["ages are set with os.utime, not waited for; in-flight markers are kept fresh (younger than 24 h = live transaction)",
               "the history machine runs on the local backend; S3 table prefixes (12 spellings x env prefixes, with neighbouring tables sharing a string prefix) are exercised by a second generator on the fake S3 with the same deleted-vs-reachable oracle"]
REQUIRED_LABELS = {"quick": ["gc", "gc-eligible-orphan", "gc-with-live-txn", "gc-with>=2-snapshots", "s3-prefix"], "thorough": ["gc", "gc-eligible-orphan", "gc-with-live-txn"]}


@st.composite
def case_strategy(draw):
    loc = draw(st.sampled_from(LOCATION_KINDS))
    steps = draw(history_strategy(20, gc=True, clock_ticks="none", props_ops=False, open_txn=True))
    # make sure there is at least one collection, preceded by ageing
    tail = [{"op": "age", "s": draw(st.sampled_from([7200, 90000]))}, {"op": "gc", "grace_ms": draw(st.sampled_from([0, 3600000]))}]
    return {"kind": "history", "location": loc, "steps": steps + tail}


def check_history(case):
    vios, labels, facts = run_history(PROP, case["steps"], location_kind=case["location"])
    L = set(labels)
    nontrivial = ("gc-eligible-orphan" in L and "gc-with>=2-snapshots" in L) or "gc-with-live-txn" in L
    vios = [(b + ("" if b.startswith("op-raised") else ""), w) for b, w in vios]
    return {"violations": vios, "labels": sorted(L) + [f"loc:{case['location']}"], "nontrivial": nontrivial}


S3_SPELLINGS = [("tbl", ""), ("/tbl/", ""), ("a/b", "env"), ("tbl", "env/"), ("data", ""), ("metadata", "pfx"), ("d", ""), ("m", "x/y"), ("data/data", ""),
                ("tbl/", "/env/"), ("dat", "data"), ("meta", "metadata")]


@st.composite
def s3_case(draw):
    table, env = draw(st.sampled_from(S3_SPELLINGS))
    return {"kind": "s3spell", "table": table, "env": env, "appends": draw(st.integers(1, 3)), "delete": draw(st.booleans()), "expire": draw(st.booleans()),
            "live_txn": draw(st.booleans()), "grace_ms": draw(st.sampled_from([0, 3600000])), "neighbour": draw(st.booleans())}


def check_s3(case):
    """The same safety/effectiveness oracle on the fake S3 for spellings of the table prefix (with / without env prefix)."""
    import datashard
    from ..fakes3 import FakeS3, s3_env
    from ..hist import FIELDS
    from ..reader import MapFS, read_view, reachable_files
    from ..tbl import make_schema

    out = {"violations": [], "labels": [f"s3:{case['table']}|{case['env']}", "s3-prefix"], "nontrivial": True}
    fake = FakeS3(page_size=3)
    with s3_env(fake, env_prefix=case["env"]):
        t = datashard.create_table(case["table"], make_schema(FIELDS))
        for i in range(case["appends"]):
            t.append_records([{"k": i, "s": "x"}])
        if case["delete"]:
            fp = t._get_all_data_files()[0].file_path
            with t.new_transaction() as tx:
                tx.delete_files([fp])
                tx.commit()
        if case["expire"]:
            with t.new_transaction() as tx:
                tx.expire_snapshots(2**62)
                tx.commit()
        key_prefix = t.storage.prefix  # the key prefix the backend derived from env prefix + table location
        fs = MapFS(fake.objects, key_prefix)
        fs.prefix = key_prefix  # keep a leading '/' if the backend keeps it
        P = set()
        tx_live = None
        if case["live_txn"]:
            before = set(fs.list("data"))
            tx_live = t.new_transaction().begin()
            tx_live.append_data([{"k": 99, "s": "live"}])
            P = set(fs.list("data")) - before
        fake.raw_put(key_prefix + "/data/orphan_old.parquet", b"o")
        fake.raw_put(key_prefix + "/metadata/manifests/manifest_orphan.avro", b"o")
        if case["neighbour"]:
            # objects of OTHER tables whose keys share a string prefix with this table must never be touched
            fake.raw_put(key_prefix + "2/data/keep.parquet", b"neighbour")
            fake.raw_put(key_prefix + "/datafile_not_in_data_dir", b"neighbour")
        fake.age(7200, key_prefix)
        for k in list(fake.objects):
            if "/metadata/inflight/" in k:
                fake.objects[k]["mtime"] = fake.now()
        v = read_view(fs, rows=False)
        R = reachable_files(v)
        before_all = set(fake.objects)
        try:
            t.garbage_collect(grace_period_ms=case["grace_ms"])
            raised = None
        except Exception as e:  # noqa
            raised = e
        deleted = {k[len(key_prefix) + 1:] if k.startswith(key_prefix + "/") else "OUTSIDE:" + k for k in before_all - set(fake.objects)}
        bad = sorted(d for d in deleted if d in R or d in P or d.startswith("OUTSIDE:") or d == "datafile_not_in_data_dir")
        if bad:
            out["violations"].append(("gc-deleted-reachable-s3", f"S3 table {case['table']!r} env prefix {case['env']!r}: garbage_collect deleted {bad[:3]}"))
        if raised is not None:
            out["violations"].append((f"gc-raised/{type(raised).__name__}", f"S3 table {case['table']!r} env prefix {case['env']!r}: garbage_collect raised on an intact table: {str(raised)[:150]}"))
        else:
            for orphan in ("data/orphan_old.parquet", "metadata/manifests/manifest_orphan.avro"):
                if fs.exists(orphan):
                    out["violations"].append(("gc-left-orphan", f"S3 table {case['table']!r}: 2 h old orphan {orphan} not removed (grace {case['grace_ms']})"))
        try:
            read_view(fs, rows=True)
        except Exception as e:  # noqa
            out["violations"].append(("gc-broke-table-s3", f"after GC the table is unreadable: {e}"))
        if tx_live is not None:
            try:
                tx_live.rollback()
            except Exception:
                pass
    return out


def plan(tier, seed):
    n = 200 if tier == "quick" else 3000
    tasks = [{"n": n, "seed": seed * 1000 + s, "tier": tier} for s in range(14)]
    tasks += [{"kind": "s3", "n": 150 if tier == "quick" else 2000, "seed": seed * 1000 + 100 + s, "tier": tier} for s in range(2)]
    return tasks


def run_task(task):
    res = Result()
    if task.get("kind") == "s3":
        campaign(s3_case(), check_s3, task["n"], task["seed"], res, PROP, shrink=task["tier"] == "thorough")
        return res
    campaign(case_strategy(), check_history, task["n"], task["seed"], res, PROP, shrink=task["tier"] == "thorough")
    return res


def replay(case):
    if case.get("kind") == "s3spell":
        o = check_s3(case)
        return [{"bucket": b, "what": w} for b, w in o["violations"]]
    _fix_steps(case["steps"])
    o = check_history(case)
    return [{"bucket": b, "what": w} for b, w in o["violations"]]
