"""Shared driver for the history-engine properties (C05, C09, C15)."""
from __future__ import annotations

import os

from ..common import Result, scratch_dir
from ..hist import Engine


def run_history(prop, steps, clock_mode="real", location_kind="abs", extra_props=("ENG",)):
    """Execute one history; returns (violations[(bucket, what)], labels, engine facts)."""
    with scratch_dir(prop.lower()) as d:
        cwd = os.getcwd()
        try:
            root, location = make_location(d, location_kind)
            eng = Engine(root, location=location, clock_mode=clock_mode, props=(prop,))
            try:
                vios = eng.run(steps)
            finally:
                eng.close()
        finally:
            os.chdir(cwd)
        out = [(b, w) for p, b, w in vios if p in (prop, "ENG")]
        labels = list(eng.labels.elements())
        facts = {"snapshots": len(eng.order), "retained": len(eng.retained), "monotone": eng.clock_monotone()}
        return out, labels, facts


LOCATION_KINDS = ["abs", "abs_slash", "rel", "dot_rel", "rel_slash", "double_slash", "dotdot", "symlink", "symlink_rel",
                  "name_d", "name_data", "name_dat", "name_m", "name_metadata", "name_meta", "nested_data_data", "name_data_abs"]


def make_location(d, kind):
    """Create the directory layout for a spelling; returns (real absolute root, location string). May chdir."""
    d = os.path.realpath(d)
    name = {"name_d": "d", "name_data": "data", "name_dat": "dat", "name_m": "m", "name_metadata": "metadata", "name_meta": "meta",
            "nested_data_data": "data/data", "name_data_abs": "data"}.get(kind, "tbl")
    root = os.path.join(d, "w", name)
    os.makedirs(os.path.dirname(root), exist_ok=True)
    if kind in ("abs", "name_data_abs"):
        return root, root
    if kind == "abs_slash":
        return root, root + "/"
    if kind == "double_slash":
        return root, os.path.join(d, "w") + "//" + name
    if kind == "dotdot":
        return root, os.path.join(d, "w", name, "..", name)
    if kind == "symlink":
        os.makedirs(root)
        link = os.path.join(d, "link")
        os.symlink(root, link)
        return root, link
    if kind == "symlink_rel":
        os.makedirs(root)
        os.symlink(root, os.path.join(d, "w", "lnk"))
        os.chdir(os.path.join(d, "w"))
        return root, "lnk"
    os.chdir(os.path.join(d, "w"))
    if kind == "dot_rel":
        return root, "./" + name
    if kind == "rel_slash":
        return root, name + "/"
    return root, name
