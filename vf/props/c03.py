"""C03 - A crash at any point leaves the table in the pre- or post-operation state.

For a generated prefix history and an operation under test, the operation runs once to completion
while the table directory (or the S3 object map) is COPIED before and after every step: each copy
is exactly what a process death at that instant leaves behind (no handler, finally or rollback of
the dying run can influence it).  Every copy is then reopened and checked."""
from __future__ import annotations

import os
import shutil
import time

from hypothesis import strategies as st

from ..common import Result, scratch_dir
from ..hist import Engine, FIELDS, step_strategy
from ..lib import age_tree
from ..reader import DirFS, HINT, ReadError, read_view, reachable_files, rows_multiset, current_rows, current_snapshot, view_digest
from ..tbl import make_schema
from ..world import LocalWorld, S3World, Stepper
from . import c04
from .c15 import _fix_steps

PROP = "C03"
LEVEL = "fault_enumeration"
RULE = ("Prefix history (fixed ones in the quick tier: 3 appends / appends+delete+failed commit+crash leftover; Hypothesis-generated in the thorough tier) "
        "then one operation in {create_table, append, multi-append transaction, delete_files, expire, delete_snapshot, garbage_collect}; the crash state "
        "before and after EVERY step of the operation (os-level calls incl. temp write, fsync, rename, unlink, marker write/delete, lock take/release; S3: "
        "every request) plus synthesised prefixes of the natively written parquet temp file is reopened and must: equal the pre- or post-state (independent "
        "reader), be fully readable through the library, accept an append, and after ageing past grace and the 24 h marker window a garbage collection must "
        "delete nothing reachable and leave every snapshot readable. Non-trivial: crash strictly inside the operation. distinct = (prefix, operation, "
        "normalised step label, before/after).")
ASSUMPTIONS = ["process death with a surviving OS (power loss is C16); kernel flocks die with the process; an S3 lock object lapses after its lease",
               "the crash state of the local backend is the directory tree at the instant of the step (files are copied, not hard-linked)"]

OPS = ["create", "append", "multi", "delete", "replace", "expire", "delete_snapshot", "gc"]
PREFIXES = {
    "A": [{"op": "append", "n": 2}, {"op": "append", "n": 1}, {"op": "append", "n": 1}],
    "B": [{"op": "append", "n": 1}, {"op": "append", "n": 2}, {"op": "delete_files", "pick": [0], "slash": True, "ghost": False}, {"op": "failed_commit"},
          {"op": "crash_before_flip"}, {"op": "append", "n": 1}, {"op": "plant", "kind": "data", "age_s": 0}],
}


def build_prefix(world, steps):
    if world.kind == "local":
        eng = Engine(world.root, props=())
        try:
            eng.run(steps)
        finally:
            eng.close()
    else:
        with world.env():
            t = world.create(make_schema(FIELDS))
            k = 0
            for s in steps:
                if s["op"] == "append":
                    rows = []
                    for _ in range(s["n"]):
                        k += 1
                        rows.append({"k": k, "s": f"r{k}"})
                    t.append_records(rows)
                elif s["op"] == "delete_files":
                    cur = t._get_all_data_files()
                    if cur:
                        with t.new_transaction() as tx:
                            tx.delete_files([cur[0].file_path])
                            tx.commit()


def pre_info(v):
    snaps = v["snapshots"]
    cur = current_snapshot(v)
    info = {"digest": view_digest(v), "ids": [s["id"] for s in snaps], "rows": current_rows(v), "files": set(cur["files"]) if cur else set(),
            "pointer": v["metadata_file"], "by_id": {s["id"]: s for s in snaps}, "current_id": v["current_id"]}
    info["del_path"] = sorted(info["files"])[0] if info["files"] else "data/none.parquet"
    tss = sorted({s["ts"] for s in snaps})
    # expire everything older than the newest snapshot: with >= 3 snapshots that removes SEVERAL at once - one operation, one commit point
    info["cutoff"] = tss[-1] if tss else 0
    info["del_snapshot"] = snaps[0]["id"] if snaps else 1
    return info


def classify(world, op, pre):
    sc = {"op": op}
    if op == "gc":
        try:
            v = read_view(world.fs())
        except ReadError as e:
            return ("damaged", str(e)), None
        return ("pre" if view_digest(v) == pre["digest"] else ("other", "view changed by GC")), v
    if op == "delete" and pre["files"] == set():
        sc = {"op": "delete"}
    return c04.classify(world, sc, pre)


def do_op(t, op, pre, world):
    if op == "gc":
        t.garbage_collect(grace_period_ms=0)
    else:
        style = {"append": "records", "multi": "with_commit", "delete": "with_commit", "replace": "with_commit", "expire": "with_commit", "delete_snapshot": "direct"}[op]
        c04.do_op(t, {"op": op, "style": style}, pre)


def check_state(w, op, pre, res, case, label):
    """All post-crash obligations for one crash state held in world w (which is consumed)."""
    def vio(bucket, what):
        res.violation(bucket, f"op={op} crash at [{label}]: {what}", case)

    with w.env():
        w.process_exit()
        cls, v = classify(w, op, pre)
        if isinstance(cls, tuple):
            vio(f"crash/{cls[0]}-state", f"table is {cls[0]}: {cls[1]}")
            return
        res.labels[f"state:{cls}"] += 1
        try:
            t = w.open()
            lp = t.metadata_manager.lock_provider
            if hasattr(lp, "lock"):
                lp.lock.timeout = 1.0
            got = rows_multiset(t.scan())
            for s in v["snapshots"]:
                if t.snapshot_by_id(s["id"]) is None:
                    vio("crash/snapshot-lookup", f"retained snapshot {s['id']} not found by the library")
                    return
        except Exception as e:  # noqa
            vio(f"crash/unreadable/{type(e).__name__}", f"reopen/scan failed: {type(e).__name__}: {str(e)[:120]}")
            return
        if got != current_rows(v):
            vio("crash/scan-differs", f"library scan returned {sum(got.values())} rows, independent reader {sum(current_rows(v).values())}")
            return
        try:
            t.append_records([{"k": 900, "s": "after"}])
            got2 = rows_multiset(w.open().scan())
        except Exception as e:  # noqa
            vio(f"crash/not-writable/{type(e).__name__}", f"follow-up append failed: {type(e).__name__}: {str(e)[:120]}")
            return
        if got2 != got + rows_multiset([{"k": 900, "s": "after"}]):
            vio("crash/follow-up-rows", f"follow-up append gave {sum(got2.values())} rows, expected {sum(got.values()) + 1}")
            return
        # age everything past grace and the 24 h abandonment window, then collect
        if w.kind == "local":
            age_tree(w.root, 100000, only=lambda rel: rel.startswith("data") or rel.startswith("metadata"))
        else:
            w.fake.age(100000, w.key_prefix + "/")
        v2 = read_view(w.fs())
        need = reachable_files(v2)
        try:
            w.open().garbage_collect()
        except Exception as e:  # noqa
            vio(f"crash/gc-raises/{type(e).__name__}", f"garbage collection after the crash raised: {str(e)[:120]}")
            return
        missing = [p for p in need if not w.exists(p)]
        if missing:
            vio("crash/gc-deleted-reachable", f"GC after the crash deleted reachable files {missing[:2]}")
            return
        try:
            v3 = read_view(w.fs())
        except ReadError as e:
            vio("crash/unreadable-after-gc", str(e))
            return
        if view_digest(v3) != view_digest(v2):
            vio("crash/changed-by-gc", "table content changed by GC")
            return
        left = [p for p in w.fs().list("data") + w.fs().list("metadata/manifests") if p not in need]
        if left:
            vio("crash/gc-left-leftovers", f"leftovers of the dead operation survive GC although aged 27 h: {left[:2]}")


def check_create_state(w, res, case, label, schema_fields):
    def vio(bucket, what):
        res.violation(bucket, f"op=create crash at [{label}]: {what}", case)

    with w.env():
        w.process_exit()
        dead_uuid = None
        try:
            dead_uuid = read_view(w.fs(), rows=False)["uuid"]
        except ReadError:
            pass
        try:
            t = w.create(make_schema(schema_fields))
            lp = t.metadata_manager.lock_provider
            if hasattr(lp, "lock"):
                lp.lock.timeout = 1.0
            t.append_records([{"k": 1, "s": "a"}])
            got = rows_multiset(w.open().scan())
        except Exception as e:  # noqa
            vio(f"crash/create-unusable/{type(e).__name__}", f"create_table/append after the crash failed: {type(e).__name__}: {str(e)[:120]}")
            return
        if got != rows_multiset([{"k": 1, "s": "a"}]):
            vio("crash/create-rows", f"rows after create+append: {got}")
            return
        v = read_view(w.fs())
        res.labels["state:" + ("dead-creators-table" if dead_uuid else "no-table")] += 1
        if dead_uuid and v["uuid"] != dead_uuid:
            vio("crash/create-reinitialised", f"the dead creator's pointer existed (uuid {dead_uuid}) but the table now has uuid {v['uuid']}")
        names = [f["name"] for s in v["schemas"] if s["schema_id"] == v["current_schema_id"] for f in s["fields"]]
        if names != [f["name"] for f in schema_fields]:
            vio("crash/create-schema", f"persisted schema fields {names}")


def run_one(task):
    res = Result()
    wk, op, steps = task["world"], task["op"], task["prefix_steps"]
    pname = task["prefix"]
    with scratch_dir("c03") as d:
        base = c04.make_world(d, wk)
        if op != "create":
            build_prefix(base, steps)
            pre = pre_info(read_view(base.fs()))
        else:
            pre = None
            if wk == "local":
                os.makedirs(base.root)
        run = base.clone(d + "/run") if wk == "local" else base.clone()
        states = []  # (n, phase, label, target, world)
        st = Stepper()
        counter = [0]

        def snap(n, phase, label, target, info):
            counter[0] += 1
            if counter[0] % task["nshard"] != task["shard"]:
                return
            st.enabled = False
            try:
                w = run.clone(f"{d}/s{len(states)}") if wk == "local" else run.clone()
            finally:
                st.enabled = True
            states.append((n, phase, label, target, w))
            # native parquet write: synthesise torn temp files
            if wk == "local" and phase == "after" and label.endswith("ParquetWriter.close"):
                size = os.path.getsize(os.path.join(w.root, target))
                for cut in sorted({0, 1, size // 2, max(size - 1, 0)}):
                    w2 = w.clone(f"{d}/s{len(states)}_{cut}")
                    with open(os.path.join(w2.root, target), "r+b") as f:
                        f.truncate(cut)
                    states.append((n, f"torn@{cut}", label, target, w2))

        st.handler = snap
        with run.env(st):
            if op == "create":
                st.enabled = True
                run.create(make_schema(FIELDS))
                st.enabled = False
            else:
                t = run.open()
                st.enabled = True
                try:
                    do_op(t, op, pre, run)
                except Exception as e:  # noqa - a FAULT-FREE, uncontended operation on a table whose history may hold crash leftovers
                    st.enabled = False
                    crashy = any(s_.get("op") in ("crash_before_flip", "failed_commit") for s_ in (steps or []))
                    res.violation(f"fault-free-operation-raised/{op}/{type(e).__name__}" + ("/after-crash-leftovers" if crashy else ""),
                                  f"op={op} on prefix {pname}: the fault-free run raised {type(e).__name__}: {str(e)[:140]}",
                                  {"kind": "crash", "world": wk, "op": op, "prefix": pname, "prefix_steps": steps, "n": 1, "phase": "before", "step": "clean-run"})
                    return res
                st.enabled = False
        st.handler = None
        N = st.n
        for (n, phase, label, target, w) in states:
            nl = c04.norm_label(label, target)
            case = {"kind": "crash", "world": wk, "op": op, "prefix": pname, "prefix_steps": steps, "n": n, "phase": phase, "step": nl}
            inside = 1 < n or phase != "before"
            res.case(key=f"{wk}|{pname}|{op}|{nl}|{phase}", nontrivial=(not (n == 1 and phase == "before")) and not (n == N and phase == "after"),
                     labels=[f"world:{wk}", f"op:{op}"], sample=case if n % 41 == 0 else None)
            if op == "create":
                check_create_state(w, res, case, f"{n} {phase} {nl}", FIELDS)
            else:
                check_state(w, op, pre, res, case, f"{n} {phase} {nl}")
            if wk == "local":
                shutil.rmtree(w.root, ignore_errors=True)
    res.extra["exhaustive_over_step_sequence"] = True
    return res


def plan(tier, seed):
    tasks = []
    if tier == "quick":
        for wk in ("local", "s3cas"):
            for pname, steps in PREFIXES.items():
                if wk != "local" and pname == "B":
                    continue
                for op in OPS:
                    if op == "create" and pname != "A":
                        continue
                    nshard = 2 if wk == "local" else 1
                    for s in range(nshard):
                        tasks.append({"world": wk, "op": op, "prefix": pname, "prefix_steps": steps, "shard": s, "nshard": nshard})
    else:
        import hypothesis
        from hypothesis import HealthCheck, Phase, given, settings

        prefixes = dict(PREFIXES)
        strat = st.lists(st.one_of(step_strategy(gc=True, clock_ticks="none", props_ops=True, open_txn=False), st.just({"op": "failed_commit"}),
                                   st.just({"op": "crash_before_flip"})), min_size=1, max_size=8)
        got = []

        @hypothesis.seed(seed)
        @settings(max_examples=40, database=None, deadline=None, phases=[Phase.generate], suppress_health_check=list(HealthCheck))
        @given(strat)
        def collect(steps):
            got.append(steps)

        collect()
        for i, steps in enumerate(got):
            prefixes[f"H{seed}_{i}"] = [{"op": "append", "n": 1}] + steps
        for wk in ("local", "s3cas", "s3plain"):
            for pname, steps in prefixes.items():
                if wk != "local" and not pname.startswith("A"):
                    continue
                for op in OPS:
                    if op == "create" and pname != "A":
                        continue
                    tasks.append({"world": wk, "op": op, "prefix": pname, "prefix_steps": steps, "shard": 0, "nshard": 1})
    return tasks


def run_task(task):
    return run_one(task)


def replay(case):
    _fix_steps(case["prefix_steps"])
    task = {"world": case["world"], "op": case["op"], "prefix": case["prefix"], "prefix_steps": case["prefix_steps"], "shard": 0, "nshard": 1}
    r = run_one(task)
    want = (case.get("step"), case.get("phase"))
    out = []
    for v in r.violations:
        out.append({"bucket": v["bucket"], "what": v["what"]})
    # report each bucket once
    seen, uniq = set(), []
    for o in out:
        if o["bucket"] not in seen:
            seen.add(o["bucket"])
            uniq.append(o)
    return uniq
