"""C09 - Retained snapshots are immutable; time travel is stable."""
from __future__ import annotations

from hypothesis import strategies as st

from ..common import Result
from ..hist import history_strategy
from ..hyp import campaign
from ._histprop import run_history
from .c15 import _fix_steps

PROP = "C09"
LEVEL = "exploration"
RULE = ("Hypothesis histories (3-25 steps) of append / multi-op transaction / delete_files (manifest rewrites) / expire / delete_snapshot (incl. current) / "
        "retention property / failed commit / plant orphans + age + garbage_collect(0..10h), under real-like and coarse (equal-millisecond) non-decreasing clocks. "
        "After EVERY step every retained snapshot is re-read by the independent reader (checksums verified) and compared with the file set and rows recorded at "
        "its commit; lookup by id and by timestamp (at, just before, just after every recorded timestamp) are compared with the model; bytes of every data and "
        "manifest file are hashed over the whole history. Non-trivial: a snapshot older than the current one was re-read after a delete-rewrite, expiry, "
        "snapshot deletion or collection. distinct = hash of the history.")
ASSUMPTIONS = ["a third of the histories let the clock step backwards between commits; there 'not newer than t' and 'most recently committed' can disagree, so",
               "timestamp lookups are only checked while recorded timestamps are non-decreasing in commit order"]
REQUIRED_LABELS = {"quick": ["deleted-current", "gc", "op:delete_files"], "thorough": ["deleted-current", "gc"]}


@st.composite
def case_strategy(draw):
    # manual_back: the wall clock may step BACK between commits (NTP step, writers on hosts with skewed clocks): commit order
    # and timestamp order then differ; everything stated in terms of commit recency (repointing, immutability) still applies
    clock = draw(st.sampled_from(["real", "manual", "manual_back"]))
    steps = draw(history_strategy(25, gc=True, clock_ticks="any" if clock == "manual_back" else "forward", open_txn=True))
    return {"kind": "history", "clock": clock, "steps": steps}


def check_history(case):
    vios, labels, facts = run_history(PROP, case["steps"], clock_mode="real" if case["clock"] == "real" else "manual")
    labels = list(labels) + ([ "clock-steps-back"] if case["clock"] == "manual_back" else [])
    snaps = 0
    nontrivial = False
    for s in case["steps"]:
        if s["op"] in ("append", "txn", "commit_open", "delete_files"):
            snaps += 1
        if s["op"] in ("delete_files", "expire", "delete_snapshot", "gc") and snaps >= 2:
            nontrivial = True
    return {"violations": vios, "labels": sorted(set(labels)) + [f"clock:{case['clock']}"], "nontrivial": nontrivial}


def plan(tier, seed):
    n = 250 if tier == "quick" else 3000
    return [{"n": n, "seed": seed * 1000 + s, "tier": tier} for s in range(16)]


def run_task(task):
    res = Result()
    campaign(case_strategy(), check_history, task["n"], task["seed"], res, PROP, shrink=task["tier"] == "thorough")
    return res


def replay(case):
    _fix_steps(case["steps"])
    o = check_history(case)
    return [{"bucket": b, "what": w} for b, w in o["violations"]]
