"""C02 - Readers observe only whole committed snapshots."""
from __future__ import annotations

import collections

from hypothesis import strategies as st

from ..common import Result, chash, scratch_dir
from ..conc import is_flip, run_scheduled, share_handle
from ..hist import FIELDS
from ..hyp import campaign
from ..lib import run_read
from ..reader import HINT, ReadError, read_view, rows_multiset, current_snapshot
from ..tbl import make_schema, reference_scan
from . import c04
from .c01 import build_base

PROP = "C02"
LEVEL = "exploration"
RULE = ("1-2 readers x 1-3 writers on a table with 0-3 prior snapshots (local and conditional-write S3, separate or shared handles). Reader = 1-2 successive "
        "reads on one handle, each from {scan, scan(parallel=2), scan_batches(1/3/1000), iter_records, row_count} with/without filter, projection, checksum "
        "verification; writer from {append, multi-append transaction, delete_files, explicit rollback after append_data, commit forced to fail at the pointer "
        "write, append with one I/O error injected at the j-th low-level step AFTER the pointer rename, replace-a-file + expire + garbage_collect(grace 0)}. Interleavings are owned by the deterministic scheduler (yield at storage-API calls, lock syscalls, atomic publishes, S3 requests): exhaustive "
        "single-preemption enumeration for fixed reader x writer scenarios and Hypothesis PCT schedules (<=3 change points) over generated scenarios. Oracle: "
        "from the pointer-flip log the sequence S0,S1,.. of committed current snapshots with the step interval during which each was current; a read over "
        "steps [a,b] must RETURN exactly rows(Si) (filtered/projected by the reference evaluator) for some i whose interval intersects [a,b]; successive reads "
        "on one handle map to non-decreasing i. Non-trivial: a flip happened strictly inside [a,b]. distinct = (scenario, schedule).")
ASSUMPTIONS = ["the only collecting writer is 'replace + expire everything older, then garbage_collect(grace 0)': a read of a snapshot whose files were collected may raise (missing file); if it returns, it returns a whole committed snapshot", "thread-pool workers of a parallel scan are not scheduled individually"]
REQUIRED_LABELS = {"quick": ["flip-inside-read", "empty-base", "two-reads"], "thorough": ["flip-inside-read"]}

READ_APIS = ["scan", "scan_par2", "batches1", "batches3", "batches_big", "iter_records", "row_count"]


def do_read(t, spec):
    if spec["api"] == "row_count":
        return ("count", t.row_count())
    return ("rows", run_read(t, spec["api"], spec.get("filter"), spec.get("columns"), spec.get("verify")))


def writer_fn(t, w, idx, base, world, sch=None):
    kind = w["op"]
    files = sorted(current_snapshot(base)["files"]) if current_snapshot(base) else []
    if kind == "append":
        rows = [{"k": 100 + idx, "s": f"w{idx}"}]
        return lambda: t.append_records(rows)
    if kind == "multi":
        def f():
            with t.new_transaction() as tx:
                tx.append_data([{"k": 200 + idx, "s": f"m{idx}"}])
                tx.append_data([{"k": 300 + idx, "s": f"m{idx}"}, {"k": 301 + idx, "s": f"m{idx}"}])
                return tx.commit()

        return f
    if kind == "delete":
        if not files:
            return lambda: None
        p = files[w.get("which", 0) % len(files)]

        def f():
            with t.new_transaction() as tx:
                tx.delete_files([p])
                return tx.commit()

        return f
    if kind == "replace":
        if not files:
            return lambda: None
        p = files[w.get("which", 0) % len(files)]

        def f():
            with t.new_transaction() as tx:
                tx.delete_files([p])
                tx.append_data([{"k": 600 + idx, "s": f"rep{idx}"}])
                return tx.commit()

        return f
    if kind == "replace_gc":
        # one transaction deletes a file, appends its replacement and expires every older snapshot; then the old files are collected
        if not files:
            return lambda: None
        p = files[w.get("which", 0) % len(files)]

        def f():
            with t.new_transaction() as tx:
                tx.delete_files([p])
                tx.append_data([{"k": 800 + idx, "s": f"rg{idx}"}])
                tx.expire_snapshots(10**15)
                tx.commit()
            try:
                t.garbage_collect(grace_period_ms=0)
            except Exception:
                return "gc-raised"
            return "collected"

        return f
    if kind == "rollback":
        def f():
            tx = t.new_transaction().begin()
            tx.append_data([{"k": 400 + idx, "s": "never"}])
            tx.rollback()
            return "rolled-back"

        return f
    if kind == "late_fault":
        # an append during which ONE low-level step after the pointer rename fails (injected from run_case's on_event hook):
        # whatever the writer then reports, readers must keep seeing whole snapshots that stay committed
        def f():
            try:
                t.append_records([{"k": 700 + idx, "s": f"lf{idx}"}])
                return "committed"
            except Exception as e:  # noqa
                if isinstance(e, OSError) or type(e).__name__ in ("AmbiguousCommitError", "ReadTimeoutError", "ConcurrentModificationException"):
                    return "failed-late"
                raise

        return f
    if kind == "failing":
        def f():
            stg = t.storage
            orig = stg.write_file

            me = sch.me() if sch is not None else None

            def failing(path, content):
                # only THIS writer's pointer write fails (the handle may be shared with other actors)
                if path == HINT and (sch is None or sch.me() is me):
                    raise OSError("injected: pointer write failed")
                return orig(path, content)

            stg.write_file = failing
            try:
                try:
                    t.append_records([{"k": 500 + idx, "s": "never"}])
                    return "unexpectedly-committed"
                except OSError:
                    return "failed-as-planned"
            finally:
                stg.write_file = orig

        return f
    raise ValueError(kind)


def run_case(case):
    out = {"violations": [], "labels": [], "nontrivial": False}
    sc = case["sc"]
    with scratch_dir("c02") as d:
        world = c04.make_world(d, sc["world"])
        base = build_base(world, sc["nprior"], multi=bool(sc.get("multi_base")))
        reads_log = []  # (reader idx, read idx, a, b, outcome)

        def make_actors(w, sch, clk):
            nact = len(sc["readers"]) + len(sc["writers"])
            if sc["topology"] == "shared":
                t = share_handle(w.open(), sch)
                tabs = [t] * nact
            elif sc["topology"] == "rw0":
                # the readers and the FIRST writer are threads on one handle (whatever that writer leaves on the handle, e.g.
                # after a failed commit, is what the readers read through); every other writer has a handle of its own
                t = share_handle(w.open(), sch)
                nr = len(sc["readers"])
                tabs = [t] * (nr + 1) + [w.open() for _ in range(nact - nr - 1)]
            else:
                tabs = [w.open() for _ in range(nact)]
            actors = []
            for ri, reads in enumerate(sc["readers"]):
                def rf(ri=ri, reads=reads, t=tabs[ri]):
                    for qi, spec in enumerate(reads):
                        a = sch.global_steps
                        restore = None
                        if spec.get("fault") and sc["topology"] == "separate":
                            # one transient error on this reader's k-th storage call that touches the pointer
                            stg, me, left = t.storage, sch.me(), [spec["fault"]]
                            origs = {m: getattr(stg, m) for m in ("read_file", "exists")}

                            def mk(m):
                                def f(path, *a_, **k_):
                                    if path == HINT and sch.me() is me and left[0] > 0:
                                        left[0] -= 1
                                        if left[0] == 0:
                                            left[0] = -1
                                            raise OSError(5, "injected transient pointer read error")
                                    return origs[m](path, *a_, **k_)

                                return f

                            for m in origs:
                                setattr(stg, m, mk(m))
                            restore = (stg, origs)
                        try:
                            r = do_read(t, spec)
                        except Exception as e:  # noqa
                            r = ("raise", e)
                        finally:
                            if restore:
                                for m, o in restore[1].items():
                                    setattr(restore[0], m, o)
                        reads_log.append((ri, qi, a, sch.global_steps, r, spec))
                    return True

                actors.append((f"r{ri}", rf))
            for wi, wsp in enumerate(sc["writers"]):
                if wsp["op"] == "failing" and w.kind != "local":
                    wsp = dict(wsp, op="rollback")
                # (on object storage the late fault is a transport error AFTER the pointer PUT landed: see on_event)
                actors.append((f"w{wi}", writer_fn(tabs[len(sc["readers"]) + wi], wsp, wi, base, w, sch)))
            return actors

        late = {len(sc["readers"]) + wi: {"j": wsp.get("j", 1), "flipped": False, "n": 0, "done": False}
                for wi, wsp in enumerate(sc["writers"]) if wsp["op"] == "late_fault" and world.kind == "local"}

        late_s3 = {len(sc["readers"]) + wi: {"fired": False} for wi, wsp in enumerate(sc["writers"]) if wsp["op"] == "late_fault" and world.kind != "local"}
        collecting = any(wsp["op"] == "replace_gc" for wsp in sc["writers"])
        views_at_flip = {}

        def on_event(sch, a, phase, label, target, info):
            if collecting and is_flip(world.kind, phase, label, target, info):
                # with a collector among the writers older versions lose their files later: read each version when it becomes current
                try:
                    content = world.fs().get(HINT).decode().strip()
                    if content not in views_at_flip:
                        views_at_flip[content] = read_view(world.fs(), metadata_file=content)
                except Exception:
                    pass
            s3t = late_s3.get(a.idx)
            if s3t is not None and not s3t["fired"] and phase == "after" and label.startswith("s3:put") and target == HINT:
                # the pointer PUT has landed; its response is lost (client-side read timeout, retryable as far as the transport layer knows)
                from botocore.exceptions import ReadTimeoutError

                s3t["fired"] = True
                out["labels"].append("late-fault-fired")
                raise ReadTimeoutError(endpoint_url="http://fake-s3")
            stt = late.get(a.idx)
            if stt is None or stt["done"]:
                return
            if not stt["flipped"]:
                if phase == "after" and label == "sb:os.replace" and target == HINT:
                    stt["flipped"] = True
                return
            if phase == "before" and (label.startswith("sb:os.") or label.startswith("lock:")):
                stt["n"] += 1
                if stt["n"] == stt["j"]:
                    stt["done"] = True
                    out["labels"].append("late-fault-fired")
                    if not label.endswith("os.close"):
                        raise OSError(5, "injected I/O error after the pointer rename")

        run = run_scheduled(world, make_actors, case["schedule"], seed=case.get("seed", 0), on_event=on_event if (late or collecting or late_s3) else None)
        out["labels"] += [f"world:{sc['world']}", f"topo:{sc['topology']}"] + (["empty-base"] if sc["nprior"] == 0 else [])
        if run.error is not None:
            out["violations"].append((f"scheduler/{type(run.error).__name__}", str(run.error)[:200]))
            return out
        for i, (oc, val) in enumerate(run.outcomes):
            if oc == "raise":
                out["violations"].append((f"actor-raised/{'reader' if i < len(sc['readers']) else 'writer'}/{type(val).__name__}", f"actor {i} raised {type(val).__name__}: {str(val)[:150]}"))
                return out
        # committed snapshot sequence with step intervals
        fs = world.fs()
        versions = [(0, base)]
        for step, aidx, content in run.flips:
            try:
                versions.append((step, views_at_flip[content] if content in views_at_flip else read_view(fs, metadata_file=content)))
            except ReadError as e:
                out["violations"].append(("flip-to-unreadable-version", str(e)))
                return out
        intervals = []
        for i, (start, v) in enumerate(versions):
            end = versions[i + 1][0] if i + 1 < len(versions) else 10**9
            cur = current_snapshot(v)
            rows = [r for p in (cur["files"] if cur else []) for r in cur["rows_by_file"][p]]
            intervals.append((start, end, rows))
        last_idx = {}
        for (ri, qi, a, b, r, spec) in sorted(reads_log, key=lambda x: (x[0], x[1])):
            if len(sc["readers"][ri]) > 1:
                out["labels"].append("two-reads")
            if any(a < s <= b for s, _e, _r in intervals[1:]):
                out["labels"].append("flip-inside-read")
                out["nontrivial"] = True
            tag = f"{spec['api']}"
            if r[0] == "raise" and spec.get("fault") and isinstance(r[1], OSError):
                out["labels"].append("faulted-read-raised")  # fail closed: allowed
                continue
            if spec.get("fault"):
                out["labels"].append("faulted-read-returned")
            if r[0] == "raise" and collecting and (isinstance(r[1], FileNotFoundError) or "exist" in str(r[1]) or "No such file" in str(r[1]) or "missing" in str(r[1]).lower() or "NoSuchKey" in str(r[1]) or "Not Found" in str(r[1]) or "404" in str(r[1])):
                out["labels"].append("read-raised-after-collection")  # the snapshot being read was expired and collected: failing closed is right
                continue
            if r[0] == "raise":
                out["violations"].append((f"read-raised/{type(r[1]).__name__}", f"reader {ri} read {qi} ({spec}) over steps [{a},{b}] raised {type(r[1]).__name__}: {str(r[1])[:160]}"))
                continue
            cands = [i for i, (s, e, _rows) in enumerate(intervals) if s <= b and e >= a]
            matched = None
            for i in cands:
                rows = intervals[i][2]
                if r[0] == "count":
                    ok = r[1] == len(rows)
                else:
                    ok = rows_multiset(r[1]) == rows_multiset(reference_scan(rows, spec.get("filter"), spec.get("columns")))
                if ok and (matched is None or i >= last_idx.get(ri, 0)):
                    matched = i
                    if i >= last_idx.get(ri, 0):
                        break
            if matched is None:
                got = r[1] if r[0] == "count" else len(r[1])
                out["violations"].append((f"torn-read/{tag}", f"reader {ri} read {qi} ({spec}) over steps [{a},{b}] returned {got} rows/count matching none of the snapshots current in that interval "
                                                              f"(candidates {[(i, len(intervals[i][2])) for i in cands]})"))
                continue
            if matched < last_idx.get(ri, 0):
                out["violations"].append((f"read-went-backwards/{tag}", f"reader {ri}: read {qi} observed snapshot #{matched} after an earlier read observed #{last_idx[ri]}"))
            last_idx[ri] = max(last_idx.get(ri, 0), matched)
        out["decisions"] = run.sched.decisions
    return out


def read_spec(draw=None, api="scan", flt=None, cols=None, verify=None, fault=0):
    return {"api": api, "filter": flt, "columns": cols, "verify": verify, "fault": fault}


FIXED = [
    {"world": "local", "topology": "separate", "nprior": 0, "readers": [[read_spec(api="scan")]], "writers": [{"op": "append"}]},
    {"world": "local", "topology": "separate", "nprior": 2, "readers": [[read_spec(api="batches1"), read_spec(api="row_count")]], "writers": [{"op": "multi"}]},
    {"world": "local", "topology": "shared", "nprior": 2, "readers": [[read_spec(api="iter_records", flt={"k": (">=", 1)})]], "writers": [{"op": "delete", "which": 0}]},
    {"world": "s3cas", "topology": "separate", "nprior": 1, "readers": [[read_spec(api="scan", verify=False), read_spec(api="scan_par2")]], "writers": [{"op": "append"}]},
    {"world": "local", "topology": "separate", "nprior": 1, "readers": [[read_spec(api="scan", cols=["k"])]], "writers": [{"op": "failing"}]},
    {"world": "s3cas", "topology": "separate", "nprior": 0, "readers": [[read_spec(api="row_count"), read_spec(api="batches3")]], "writers": [{"op": "multi"}]},
    {"world": "local", "topology": "separate", "nprior": 2, "readers": [[read_spec(api="scan", fault=1), read_spec(api="row_count", fault=2)]], "writers": [{"op": "append"}]},
    {"world": "local", "topology": "separate", "nprior": 1, "readers": [[read_spec(api="iter_records", fault=3), read_spec(api="scan")]], "writers": [{"op": "failing"}, {"op": "append"}]},
    {"world": "local", "topology": "separate", "nprior": 2, "readers": [[read_spec(api="scan"), read_spec(api="row_count")]], "writers": [{"op": "replace", "which": 0}, {"op": "append"}]},
    {"world": "local", "topology": "separate", "nprior": 1, "readers": [[read_spec(api="scan"), read_spec(api="row_count")]], "writers": [{"op": "late_fault", "j": 2}]},
    {"world": "local", "topology": "separate", "nprior": 3, "readers": [[read_spec(api="scan"), read_spec(api="batches1")]], "writers": [{"op": "replace_gc", "which": 1}]},
    {"world": "local", "topology": "separate", "nprior": 0, "multi_base": True, "readers": [[read_spec(api="scan"), read_spec(api="row_count")]],
     "writers": [{"op": "delete", "which": 1}, {"op": "delete", "which": 0}]},
    {"world": "s3cas", "topology": "separate", "nprior": 1, "readers": [[read_spec(api="scan"), read_spec(api="row_count"), read_spec(api="scan")]], "writers": [{"op": "late_fault", "j": 1}]},
    {"world": "local", "topology": "rw0", "all_orders": True, "nprior": 1, "readers": [[read_spec(api="scan"), read_spec(api="row_count")]], "writers": [{"op": "failing"}, {"op": "append"}]},
]
# two readers on ONE shared handle (threads sharing a Table) + a writer: anything a read leaves on the handle must not leak into the other reader
RICH = [
    {"world": "local", "topology": "shared", "nprior": 1, "readers": [[read_spec(api="scan")], [read_spec(api="scan")]], "writers": [{"op": "append"}]},
    {"world": "local", "topology": "shared", "nprior": 2, "readers": [[read_spec(api="batches1")], [read_spec(api="row_count"), read_spec(api="iter_records")]], "writers": [{"op": "append"}]},
]


def run_enum(task):
    import itertools

    res = Result()
    sc = task["sc"]
    n = len(sc["readers"]) + len(sc["writers"])
    o = run_case({"kind": "sched", "sc": sc, "schedule": {"order": list(range(n))}, "seed": 1})
    D = o.get("decisions", 60)
    scheds = [{"order": list(range(n))}, {"order": list(reversed(range(n)))}]
    if task.get("rich"):
        # every priority order x every starting actor x one further preemption: 'A starts, is parked at i, B runs to completion, then C, then A'
        for order in itertools.permutations(range(n)):
            for first in range(n):
                for i in range(2, int(D * 1.15) + 2):
                    for j in range(n):
                        if j != first:
                            scheds.append({"order": list(order), "preempt": [[1, first], [i, j]]})
    else:
        orders = [list(o) for o in itertools.permutations(range(n))] if sc.get("all_orders") else [list(range(n)), list(reversed(range(n)))]
        scheds += [{"order": o} for o in orders if {"order": o} not in scheds]
        for order in orders:
            for i in range(1, int(D * 1.15) + 2):
                for j in range(n):
                    scheds.append({"order": order, "preempt": [[i, j]]})
    for idx, schd in enumerate(scheds):
        if idx % task["nshard"] != task["shard"]:
            continue
        case = {"kind": "sched", "sc": sc, "schedule": schd, "seed": 1}
        o = run_case(case)
        res.case(key=chash(case), nontrivial=o["nontrivial"], labels=sorted(set(o["labels"])) + ["enum-depth1"], sample=case if o["nontrivial"] and idx % 53 == 0 else None)
        for b, w in o["violations"]:
            res.violation(b, w + f" [scenario {sc}, schedule {schd}]", case)
    res.extra["depth1_enumeration_complete_for_fixed_scenarios"] = True
    return res


# ---------------------------------------------------------------------------------------------
# writers in separate OS processes forked from one parent that already imported the library (a pre-fork worker pool): what every writer
# acknowledged must be what a reader handle in the parent then reads through every API; snapshot ids of distinct commits are distinct
def forked_case(case):
    import os

    out = {"violations": [], "labels": ["forked-writers"], "nontrivial": False}
    with scratch_dir("c02f") as d:
        world = c04.make_world(d, "local")
        base = build_base(world, case["nprior"])
        cur = current_snapshot(base)
        expect = [r for p in (cur["files"] if cur else []) for r in cur["rows_by_file"][p]]
        reader = world.open()
        if case["parent_first"]:
            # the parent itself commits before forking (whatever per-process state the library keeps has been used once)
            reader.append_records([{"k": 900, "s": "parent"}])
            expect = expect + [{"k": 900, "s": "parent"}]
        for wi in range(case["nw"]):
            rows = [[{"k": 1000 + 10 * wi + j, "s": f"p{wi}"}] for j in range(case["nops"])]
            pid = os.fork()
            if pid == 0:
                code = 4
                try:
                    t = world.open()
                    with t.new_transaction() as tx:
                        for rr in rows:
                            tx.append_data(rr)
                        ok = tx.commit()
                    code = 0 if ok else 3
                except BaseException:  # noqa
                    code = 4
                finally:
                    os._exit(code)
            # (a child that inherited a held allocator / thread-pool lock at fork time may hang: that is the environment's doing,
            # not the library's - give up on the case after two minutes instead of waiting for ever)
            import time as _t

            t_end, status = _t.monotonic() + 120, None
            while _t.monotonic() < t_end:
                done, st_ = os.waitpid(pid, os.WNOHANG)
                if done:
                    status = st_
                    break
                _t.sleep(0.002)
            if status is None:
                os.kill(pid, 9)
                os.waitpid(pid, 0)
                out["labels"].append("forked-writer-hung(inconclusive)")
                out["nontrivial"] = False
                return out
            rc = os.waitstatus_to_exitcode(status)
            if rc != 0:
                out["violations"].append((f"forked-writer-failed/rc{rc}", f"writer process #{wi} (fault-free, sequential) did not commit: exit {rc}"))
                return out
            expect = expect + [r for rr in rows for r in rr]
            out["nontrivial"] = out["nontrivial"] or wi >= 1
            for hname, h in (("long-lived", reader), ("fresh", world.open())):
                for api in READ_APIS:
                    spec = read_spec(api=api)
                    try:
                        r = do_read(h, spec)
                    except Exception as e:  # noqa
                        out["violations"].append((f"forked/read-raised/{type(e).__name__}", f"{api} on the {hname} parent handle after writer process #{wi} committed raised {type(e).__name__}: {str(e)[:150]}"))
                        continue
                    ok = (r[1] == len(expect)) if r[0] == "count" else rows_multiset(r[1]) == rows_multiset(expect)
                    if not ok:
                        got = r[1] if r[0] == "count" else len(r[1])
                        out["violations"].append((f"forked/acknowledged-commit-invisible/{api}", f"{api} on the {hname} parent handle after writer process #{wi} acknowledged its {case['nops']}-append transaction "
                                                                                                 f"returned {got} rows/count, expected {len(expect)} (all acknowledged commits)"))
            try:
                v = read_view(world.fs())
                ids = [sn["id"] for sn in v["snapshots"]]
                if len(ids) != len(set(ids)):
                    out["violations"].append(("forked/duplicate-snapshot-id", f"after writer process #{wi}: snapshot ids {ids} are not distinct"))
            except ReadError as e:
                out["violations"].append(("forked/unreadable", str(e)[:200]))
            if out["violations"]:
                return out
    return out


def run_forked(task):
    import itertools

    res = Result()
    for nw, nops, nprior, pf in itertools.product((2, 3), (1, 2, 3), (0, 1, 2), (False, True)):
        case = {"kind": "forked", "nw": nw, "nops": nops, "nprior": nprior, "parent_first": pf}
        o = forked_case(case)
        res.case(key=chash(case), nontrivial=o["nontrivial"], labels=o["labels"], sample=case if (nw, nops, nprior) == (2, 2, 1) else None)
        for b, w in o["violations"]:
            res.violation(b, w, case)
    return res



@st.composite
def pct_case(draw):
    world = draw(st.sampled_from(["local", "local", "s3cas"]))
    topo = draw(st.sampled_from(["separate", "separate", "shared", "rw0"]))
    nprior = draw(st.integers(0, 3))
    readers = []
    for _ in range(draw(st.integers(1, 2))):
        reads = []
        for _ in range(draw(st.integers(1, 2))):
            api = draw(st.sampled_from(READ_APIS))
            flt = draw(st.sampled_from([None, None, {"k": (">=", 1)}, {"s": ("!=", "w0")}, {"k": ("<", 250)}])) if api != "row_count" else None
            cols = draw(st.sampled_from([None, None, ["k"], ["s"]])) if api != "row_count" else None
            reads.append(read_spec(api=api, flt=flt, cols=cols, verify=draw(st.sampled_from([None, False])), fault=draw(st.sampled_from([0, 0, 0, 1, 2, 3]))))
        readers.append(reads)
    writers = [{"op": draw(st.sampled_from(["append", "multi", "delete", "replace", "rollback", "failing", "late_fault", "replace_gc"])), "which": draw(st.integers(0, 2)), "j": draw(st.integers(1, 8))} for _ in range(draw(st.integers(1, 3)))]
    if any(w_["op"] == "replace_gc" for w_ in writers):
        # a collection with grace 0 legitimately breaks OTHER in-flight writers (their temp files are old enough): keep it alone
        writers = [w_ for w_ in writers if w_["op"] == "replace_gc"][:1]
    n = len(readers) + len(writers)
    order = draw(st.permutations(list(range(n))))
    pre = [[draw(st.integers(1, 160)), draw(st.integers(0, n - 1))] for _ in range(draw(st.integers(0, 3)))]
    return {"kind": "sched", "sc": {"world": world, "topology": topo, "nprior": nprior, "readers": readers, "writers": writers, **({"multi_base": True} if draw(st.integers(0, 3)) == 0 else {})},
            "schedule": {"order": list(order), "preempt": sorted(pre)}, "seed": draw(st.integers(0, 3))}


def plan(tier, seed):
    tasks = []
    ns = 2
    for sc in FIXED:
        for s in range(ns):
            tasks.append({"kind": "enum", "sc": sc, "shard": s, "nshard": ns})
    for sc in RICH[: 1 if tier == "quick" else 2]:
        for s in range(6):
            tasks.append({"kind": "enum", "sc": sc, "shard": s, "nshard": 6, "rich": True})
    tasks.append({"kind": "forked"})
    n = 120 if tier == "quick" else 3000
    for s in range(4 if tier == "quick" else 16):
        tasks.append({"kind": "pct", "n": n, "seed": seed * 1000 + s, "tier": tier})
    return tasks


def run_task(task):
    if task["kind"] == "enum":
        return run_enum(task)
    if task["kind"] == "forked":
        return run_forked(task)
    res = Result()
    campaign(pct_case(), run_case, task["n"], task["seed"], res, PROP, shrink=task["tier"] == "thorough")
    return res


def _fix(spec):
    if spec.get("filter"):
        spec["filter"] = {k: tuple(v) if isinstance(v, list) else v for k, v in spec["filter"].items()}
    return spec


def replay(case):
    if case.get("kind") == "forked":
        o = forked_case(case)
        return [{"bucket": b, "what": w} for b, w in o["violations"]]
    for reads in case["sc"]["readers"]:
        for s in reads:
            _fix(s)
    o = run_case(case)
    return [{"bucket": b, "what": w} for b, w in o["violations"]]
