"""C18 - Creating a table is idempotent and race-safe."""
from __future__ import annotations

import json
import os

from hypothesis import strategies as st

from ..common import Result, chash, scratch_dir
from ..conc import no_exclusion_lock, run_scheduled
from ..hist import FIELDS
from ..hyp import campaign
from ..reader import HINT, META_RE, ReadError, read_view, rows_multiset, current_rows
from ..tbl import make_schema
from . import c04

PROP = "C18"
LEVEL = "exploration"
RULE = ("Initial state in {absent, healthy with data, pointer lost, creation interrupted (metadata written, pointer missing)} x backend {local, conditional-write "
        "S3} x 2-3 concurrent actors from {create_table(schema A), create_table(schema B), create_table() without schema, load_table, create-then-append with or "
        "without a schema argument, create_table whose own pointer write fails cleanly}, optionally with a lock timeout so short (0.03-0.2 virtual s) that waiting creators time out; interleavings owned by the deterministic scheduler (exhaustive single-preemption enumeration for fixed scenarios, "
        "Hypothesis PCT schedules for generated ones). Oracle at the end: every metadata file and every returned handle carry ONE table uuid; a pre-existing "
        "table keeps its uuid, schema and rows; the persisted schema is one of the supplied ones and is what schema-less appends used; every append that "
        "returned success is readable exactly once; an append with no schema available raised and wrote no snapshot; load_table raised 'no table' or returned "
        "that same table. Non-trivial: >=2 creators started before the first pointer write on a table that did not exist. distinct = (scenario, schedule).")
ASSUMPTIONS = ["kernel flock / conditional PUT are available (the statement's 'real mutual exclusion')", "schemas A and B differ by one extra nullable column"]
REQUIRED_LABELS = {"quick": ["racing-creators", "init:absent", "init:pointer_lost", "world:s3cas"], "thorough": ["racing-creators"]}

A_FIELDS = FIELDS
B_FIELDS = FIELDS + [{"id": 3, "name": "b", "type": "long", "required": False}]
INITS = ["absent", "healthy", "pointer_lost", "interrupted"]
ACTORS = ["create_A", "create_B", "create_none", "load", "create_A_append", "create_B_append_arg", "create_none_append", "create_none_append_argA", "create_A_fault", "create_B_fault"]
# create_X_fault: this creator's write of the version pointer fails cleanly (storage error before any effect)


def setup_initial(world, init):
    info = {"uuid": None, "rows": None, "fields": None}
    if init == "absent":
        return info
    with world.env():
        t = world.create(make_schema(A_FIELDS))
        if init in ("healthy", "pointer_lost"):
            t.append_records([{"k": 1, "s": "orig"}, {"k": 2, "s": "orig"}])
    v = read_view(world.fs())
    info.update(uuid=v["uuid"], rows=current_rows(v), fields=[f["name"] for f in A_FIELDS])
    if init in ("pointer_lost", "interrupted"):
        if world.kind == "local":
            os.remove(os.path.join(world.root, HINT))
        else:
            world.fake.objects.pop(world.key_prefix + "/" + HINT, None)
    return info


def actor_fn(world, kind, idx, results):
    import datashard

    loc = world.location()
    rows = [{"k": 100 + idx, "s": f"a{idx}"}]

    def uuid_of(t):
        md = t.metadata_manager.refresh()
        return md.table_uuid if md else None

    def f():
        rec = {"kind": kind, "handle": None, "append": None}
        results[idx] = rec
        if kind == "load":
            try:
                rec["handle"] = datashard.load_table(loc)
            except ValueError as e:
                rec["load_error"] = str(e)
            return rec
        sch = {"A": make_schema(A_FIELDS), "B": make_schema(B_FIELDS, 2), "none": None}[kind.split("_")[1]]
        if kind.endswith("_fault"):
            try:
                t = datashard.create_table(loc, sch)
            except Exception as e:  # noqa - a creator whose pointer write failed may report the failure ...
                rec["create_error"] = f"{type(e).__name__}: {str(e)[:80]}"
                return rec
        else:
            try:
                t = datashard.create_table(loc, sch)
            except TimeoutError as e:
                # only with a short lock timeout: a creator that cannot get the lock in time fails - it must not carry on without it
                rec["create_error"] = f"TimeoutError: {str(e)[:80]}"
                return rec
        rec["handle"] = t
        rec["uuid_at_return"] = uuid_of(t)  # from here on the table exists: its identity must never change
        if "append" in kind:
            arg = None
            r = list(rows)
            if kind.endswith("_arg"):
                arg = sch
                r = [dict(r[0], b=5)] if "B" in kind else r
            elif kind.endswith("_argA"):
                arg = make_schema(A_FIELDS)
            try:
                t.append_records(r, schema=arg)
                rec["append"] = ("ok", r)
            except Exception as e:  # noqa
                rec["append"] = ("raise", type(e).__name__, str(e)[:100])
        return rec

    return f


import contextlib as _ctx


@_ctx.contextmanager
def _short_locks(timeout):
    """Every lock handed out meanwhile gives up after `timeout` seconds (real time: used after the scheduled run)."""
    from datashard.storage_backend import LocalStorageBackend as _L, S3StorageBackend as _S

    origs = {c: c.create_lock for c in (_L, _S)}

    def mk(orig):
        def create_lock(self_, path, timeout_=30.0, **kw):
            return orig(self_, path, timeout=timeout)

        return create_lock

    for c, o in origs.items():
        c.create_lock = mk(o)
    try:
        yield
    finally:
        for c, o in origs.items():
            c.create_lock = o


def run_case(case):
    out = {"violations": [], "labels": [], "nontrivial": False}
    sc = case["sc"]
    with scratch_dir("c18") as d:
        world = c04.make_world(d, sc["world"])
        info = setup_initial(world, sc["init"])
        results = {}

        def make_actors(w, sch, clk):
            return [(f"a{i}", actor_fn(w, k, i, results)) for i, k in enumerate(sc["actors"])]

        noexcl = sc.get("lock") == "noexcl" and sc["world"] == "s3cas"
        faulty = {i for i, k in enumerate(sc["actors"]) if k.endswith("_fault")}
        fired = set()

        def on_event(sch, a, phase, label, target, info):
            if a.idx in faulty and a.idx not in fired and phase == "before" and target == HINT:
                if (world.kind == "local" and label.startswith("storage:write_file")) or (world.kind != "local" and label.startswith("s3:put")):
                    fired.add(a.idx)
                    if world.kind == "local":
                        raise OSError(28, "injected: no space left on device")
                    from ..fakes3 import client_error

                    raise client_error("AccessDenied", "PutObject", 403)

        import contextlib as _cl

        @_cl.contextmanager
        def short_lock_timeout():
            # every lock the local backend hands out times out after sc["lock_timeout"] virtual seconds (a creator stalled behind a
            # slow holder): the waiter must FAIL, never proceed unlocked
            if not sc.get("lock_timeout") or world.kind != "local":
                yield
                return
            from datashard.storage_backend import LocalStorageBackend as _B

            orig = _B.create_lock

            def create_lock(self_, path, timeout=30.0):
                return orig(self_, path, timeout=sc["lock_timeout"])

            _B.create_lock = create_lock
            try:
                yield
            finally:
                _B.create_lock = orig

        with (no_exclusion_lock() if noexcl else _cl.nullcontext()), short_lock_timeout():
            run = run_scheduled(world, make_actors, case["schedule"], seed=case.get("seed", 0), on_event=on_event if faulty else None)
        if sc.get("lock_timeout") and world.kind == "local":
            out["labels"].append("short-lock-timeout")
            if any(r_.get("create_error", "").startswith("TimeoutError") for r_ in results.values()):
                out["labels"].append("creator-timed-out")
        if fired:
            out["labels"].append("creator-pointer-write-failed")
        out["labels"] += [f"world:{sc['world']}", f"init:{sc['init']}"] + (["lock:no-exclusion"] if noexcl else [])
        if run.error is not None:
            out["violations"].append((f"scheduler/{type(run.error).__name__}", str(run.error)[:200]))
            return out
        first_flip = run.flips[0][0] if run.flips else 10**9
        creators_before = [a for a in run.sched.actors if sc["actors"][a.idx].startswith("create") and a.started_at is not None and a.started_at < first_flip]
        if sc["init"] == "absent" and len(creators_before) >= 2:
            out["labels"].append("racing-creators")
            out["nontrivial"] = True
        if sc["init"] != "absent" and len(creators_before) >= 2:
            out["nontrivial"] = True
        for i, (oc, val) in enumerate(run.outcomes):
            if oc == "raise":
                out["violations"].append((f"actor-raised/{sc['actors'][i].split('_')[0]}/{type(val).__name__}", f"actor {i} ({sc['actors'][i]}) raised {type(val).__name__}: {str(val)[:140]}"))
        if out["violations"]:
            return out
        fs = world.fs()
        # one uuid across every metadata file
        uuids = {}
        for p in fs.list("metadata"):
            b = os.path.basename(p)
            if os.path.dirname(p) == "metadata" and META_RE.match(b):
                try:
                    uuids[b] = json.loads(fs.get(p))["table_uuid"]
                except Exception:
                    uuids[b] = "unparseable"
        creators = [k for k in sc["actors"] if k.startswith("create")]
        if not uuids:
            # a creator that REPORTED failure may leave nothing behind; one that returned a handle must have created (or adopted) a table
            returned = [i for i, rec in results.items() if rec["kind"].startswith("create") and rec.get("handle") is not None]
            if returned:
                out["violations"].append(("no-table-created", f"create_table returned a handle to actor(s) {returned} but no metadata file exists"))
            return out
        if len(set(uuids.values())) != 1 and not noexcl:
            out["violations"].append(("multiple-initialisations", f"metadata files carry {len(set(uuids.values()))} different table uuids: {uuids}"))
            return out
        try:
            with world.env():
                try:
                    v = read_view(fs)
                except ReadError as e:
                    if "no pointer" not in str(e):
                        raise
                    # nobody committed: the pointer is still missing; the table in effect is the highest version on disk
                    best = sorted(uuids, key=lambda b: int(META_RE.match(b).group(1)))[-1]
                    v = read_view(fs, metadata_file=best)
                    out["labels"].append("pointer-still-missing")
        except ReadError as e:
            out["violations"].append(("final-unreadable", str(e)))
            return out
        the_uuid = v["uuid"]
        if info["uuid"] is not None and the_uuid != info["uuid"]:
            out["violations"].append(("existing-table-replaced", f"uuid {info['uuid']} -> {the_uuid} (initial state {sc['init']})"))
            return out
        fields = [f["name"] for s in v["schemas"] if s["schema_id"] == v["current_schema_id"] for f in s["fields"]]
        supplied = [[f["name"] for f in A_FIELDS]] * any("_A" in k for k in sc["actors"]) + [[f["name"] for f in B_FIELDS]] * any("_B" in k for k in sc["actors"])
        if info["fields"] is not None:
            if fields != info["fields"]:
                out["violations"].append(("existing-schema-replaced", f"schema fields {info['fields']} -> {fields}"))
        elif fields and fields not in supplied:
            out["violations"].append(("schema-not-a-supplied-one", f"persisted schema {fields}, supplied {supplied}"))
        rows = current_rows(v)
        want = (info["rows"] or rows_multiset([])) + rows_multiset([])
        with world.env():
            for i, rec in sorted(results.items()):
                kind = rec["kind"]
                h = rec["handle"]
                if kind == "load":
                    if h is None:
                        if "No Iceberg table" not in rec.get("load_error", ""):
                            out["violations"].append(("load-error-kind", f"load_table raised {rec.get('load_error')}"))
                        continue
                if rec.get("uuid_at_return") not in (None, the_uuid):
                    out["violations"].append(("identity-replaced-after-create-returned", f"actor {i} ({kind}) saw table uuid {rec['uuid_at_return']} when create_table returned; the table is now {the_uuid}"))
                if h is not None:
                    md = h.metadata_manager.refresh()
                    if md is None or md.table_uuid != the_uuid:
                        out["violations"].append(("caller-on-different-table", f"actor {i} ({kind}) holds a handle on uuid {md.table_uuid if md else None}, table is {the_uuid}"))
                ap = rec["append"]
                if ap is not None and ap[0] == "ok":
                    want = want + rows_multiset([{**{f: None for f in fields}, **r} for r in ap[1]])
                if ap is not None and ap[0] == "ok" and not fields and not kind.endswith(("_arg", "_argA")):
                    out["violations"].append(("append-without-schema-succeeded", f"actor {i} ({kind}) appended although no schema is persisted"))
                if ap is not None and ap[0] == "raise":
                    out["labels"].append(f"append-raised:{ap[1]}")
                    schemaless_ok = (not fields) and not kind.endswith(("_arg", "_argA"))
                    # not acknowledged: schema problems (ValueError) and contention outcomes are allowed, they just must not be counted
                    benign = ap[1] in ("ValueError", "TimeoutError", "ConcurrentModificationException")
                    if not benign:
                        out["violations"].append((f"append-raised/{ap[1]}", f"actor {i} ({kind}) append raised {ap[1]}: {ap[2]}"))
        # everybody has returned and every handle is idle: the table must be usable - a fresh handle commits (a property change, which
        # needs no schema) without waiting for a lock that nobody should hold any more
        probe_err = None
        with world.env(), _short_locks(0.5):
            try:
                import copy

                hp = world.open()
                mm = hp.metadata_manager
                base_md = mm.refresh()
                new_md = copy.deepcopy(base_md)
                new_md.properties["verif.probe"] = "1"
                mm.commit(base_md, new_md)
            except Exception as e:  # noqa
                probe_err = e
        if probe_err is not None and not noexcl:
            out["violations"].append((f"unusable-after-creation/{type(probe_err).__name__}", f"after all {len(sc['actors'])} actors returned, a fresh handle cannot commit: {type(probe_err).__name__}: {str(probe_err)[:120]} "
                                      f"(idle handles still held by the harness: {sorted(i for i, r_ in results.items() if r_.get('handle') is not None)})"))
        if rows != want:
            out["violations"].append(("rows-not-exactly-once", f"final rows {sorted(rows.items())[:4]} != expected {sorted(want.items())[:4]}"))
        out["decisions"] = run.sched.decisions
    return out


FIXED = [
    {"world": "local", "init": "absent", "actors": ["create_A_append", "create_B_append_arg"]},
    {"world": "s3cas", "init": "absent", "actors": ["create_A_append", "create_none_append"]},
    {"world": "local", "init": "pointer_lost", "actors": ["create_B", "create_A_append"]},
    {"world": "s3cas", "init": "interrupted", "actors": ["create_B_append_arg", "load"]},
    {"world": "local", "init": "healthy", "actors": ["create_B", "create_none_append_argA"]},
    {"world": "local", "init": "absent", "actors": ["create_none", "create_A", "load"]},
    {"world": "s3cas", "init": "absent", "lock": "noexcl", "actors": ["create_A", "create_B"]},
    {"world": "local", "init": "absent", "actors": ["create_A_fault", "create_B_append_arg"]},
    {"world": "local", "init": "absent", "actors": ["create_A_fault", "load", "create_A_append"]},
    {"world": "local", "init": "absent", "lock_timeout": 0.05, "actors": ["create_A", "create_B_append_arg"]},
    {"world": "local", "init": "interrupted", "lock_timeout": 0.05, "actors": ["create_B", "create_A_append"]},
    {"world": "local", "init": "absent", "depth2": True, "actors": ["create_A", "create_B_append_arg"]},
]


def run_enum(task):
    res = Result()
    sc = task["sc"]
    n = len(sc["actors"])
    o = run_case({"kind": "sched", "sc": sc, "schedule": {"order": list(range(n))}, "seed": 1})
    D = o.get("decisions", 80)
    scheds = []
    for order in (list(range(n)), list(reversed(range(n)))):
        scheds.append({"order": order})
        for i in range(1, int(D * 1.15) + 2):
            for j in range(n):
                scheds.append({"order": order, "preempt": [[i, j]]})
    if sc.get("lock_timeout"):
        # a creator STOPPED at decision i (possibly while holding the lock) until the others have finished or given up
        for order in (list(range(n)), list(reversed(range(n)))):
            for i in range(1, int(D * 1.15) + 2):
                scheds.append({"order": order, "freeze": [[i, order[0]]]})
    if sc.get("depth2"):
        # two preemptions: the first creator is parked at decision i, the second runs k decisions (into its critical section), then the first
        # runs to completion and the second finishes - 'both saw nothing there' windows that a single preemption cannot open
        for order in (list(range(n)), list(reversed(range(n)))):
            for i in range(1, min(int(D * 0.6), 60) + 1):
                for k in range(1, 41):
                    scheds.append({"order": order, "preempt": [[i, order[1]], [i + k, order[0]]]})
    for idx, schd in enumerate(scheds):
        if idx % task["nshard"] != task["shard"]:
            continue
        case = {"kind": "sched", "sc": sc, "schedule": schd, "seed": 1}
        o = run_case(case)
        res.case(key=chash(case), nontrivial=o["nontrivial"], labels=sorted(set(o["labels"])) + ["enum-depth2" if len(schd.get("preempt", [])) == 2 else "enum-depth1"], sample=case if o["nontrivial"] and idx % 41 == 0 else None)
        for b, w in o["violations"]:
            res.violation(b, w + f" [scenario {sc}, schedule {schd}]", case)
    res.extra["depth1_enumeration_complete_for_fixed_scenarios"] = True
    return res


@st.composite
def pct_case(draw):
    n = draw(st.integers(2, 3))
    actors = [draw(st.sampled_from(ACTORS)) for _ in range(n)]
    order = draw(st.permutations(list(range(n))))
    pre = [[draw(st.integers(1, 200)), draw(st.integers(0, n - 1))] for _ in range(draw(st.integers(0, 3)))]
    lock = draw(st.sampled_from(["real", "real", "noexcl"]))
    if lock == "noexcl":
        # without lock exclusion only creation is C18's subject (commits racing without a lock are C08's)
        actors = [a.split("_append")[0] for a in actors]
    return {"kind": "sched", "sc": {"world": draw(st.sampled_from(["local", "s3cas"])), "init": draw(st.sampled_from(INITS)), "actors": actors, "lock": lock,
                                    **({"lock_timeout": draw(st.sampled_from([0.03, 0.05, 0.2]))} if draw(st.integers(0, 3)) == 0 else {})},
            "schedule": {"order": list(order), "preempt": sorted(pre)}, "seed": draw(st.integers(0, 3))}


def plan(tier, seed):
    tasks = []
    for sc in FIXED:
        ns = 8 if sc.get("depth2") else 2
        for s in range(ns):
            tasks.append({"kind": "enum", "sc": sc, "shard": s, "nshard": ns})
    n = 150 if tier == "quick" else 3000
    for s in range(4 if tier == "quick" else 16):
        tasks.append({"kind": "pct", "n": n, "seed": seed * 1000 + s, "tier": tier})
    return tasks


def run_task(task):
    if task["kind"] == "enum":
        return run_enum(task)
    res = Result()
    campaign(pct_case(), run_case, task["n"], task["seed"], res, PROP, shrink=task["tier"] == "thorough")
    return res


def replay(case):
    o = run_case(case)
    return [{"bucket": b, "what": w} for b, w in o["violations"]]
