"""C11 - Accepted appends are exact; rejected ones leave no trace; scans keep working."""
from __future__ import annotations

import datetime as dt
import io
import math
import os
import struct

from hypothesis import strategies as st

from ..common import Result, scratch_dir
from ..hyp import campaign
from ..lib import READ_APIS, load, new_table, run_read
from ..reader import DirFS, HINT, ReadError, read_view, reachable_files, rows_multiset, view_digest, current_rows
from .. import tbl

PROP = "C11"
LEVEL = "exploration"
RULE = ("Hypothesis histories of 1-4 appends on a table with a generated schema (or the schemaless legacy table), through "
        "fresh or reused handles; each append is a record batch (exact, NULL, missing key, unknown key, wrong-typed, "
        "out-of-range, fractional-into-integer, float32-overflow values) or a pre-built parquet file (equal / reordered / "
        "nullability / type / extra column), with schema argument in {omitted, identical, copy, reordered, renumbered ids, "
        "changed type, changed nullability, extra field, missing field, other schema_id}. Non-trivial: a non-identical schema "
        "argument, a wrong/boundary value or a pre-built file was involved. distinct = hash of the whole history.")
ASSUMPTIONS = ["bool->numeric, datetime->date, tz-aware->naive timestamp, int->date/time/timestamp (epoch units) and integral "
               "floats into temporal columns are kept out of the generator: the statement does not settle whether Python-compatible "
               "values of another type are 'representable'",
               "rejecting a batch is always allowed by the statement; acceptance of valid batches is only measured (label 'accepted')"]
REQUIRED_LABELS = {"quick": ["accepted", "rejected", "schema:reordered", "schema:renumbered", "files"], "thorough": ["accepted", "rejected"]}

REJECT = ("reject",)
FLT_MAX = 3.4028234663852886e38


def _f32_or_reject(v):
    try:
        return struct.unpack("f", struct.pack("f", v))[0]
    except OverflowError:
        return None


def represent(typ, v):
    """('exact', stored) | ('either', stored) (may be rejected; if accepted must read back as stored) | REJECT."""
    if v is None:
        return ("exact", None)
    if typ == "boolean":
        return ("exact", v) if isinstance(v, bool) else REJECT
    if isinstance(v, bool):
        return REJECT if typ not in () else REJECT
    if typ in ("int", "long"):
        lo, hi = (-(2**31), 2**31 - 1) if typ == "int" else (-(2**63), 2**63 - 1)
        if isinstance(v, int):
            return ("exact", v) if lo <= v <= hi else REJECT
        if isinstance(v, float):
            if math.isfinite(v) and v.is_integer() and lo <= int(v) <= hi:
                return ("either", int(v))
            return REJECT
        return REJECT
    if typ == "float":
        if isinstance(v, float):
            if math.isnan(v) or math.isinf(v):
                return ("exact", v)
            r = _f32_or_reject(v)
            if r is None or math.isinf(r):
                return REJECT
            return ("exact", r)
        if isinstance(v, int):
            try:
                fv = float(v)
            except OverflowError:
                return REJECT
            r = _f32_or_reject(fv)
            return ("either", r) if r is not None and r == v else REJECT
        return REJECT
    if typ == "double":
        if isinstance(v, float):
            return ("exact", v)
        if isinstance(v, int):
            try:
                fv = float(v)
            except OverflowError:
                return REJECT
            return ("either", fv) if fv == v else REJECT
        return REJECT
    if typ in ("string", "uuid"):
        if isinstance(v, str):
            return ("exact", v)
        if isinstance(v, bytes):
            try:
                return ("either", v.decode("utf-8"))
            except UnicodeDecodeError:
                return REJECT
        return REJECT
    if typ == "binary":
        if isinstance(v, bytes):
            return ("exact", v)
        if isinstance(v, str):
            return ("either", v.encode("utf-8"))
        return REJECT
    # integers are the physical representation of the temporal types (days / microseconds since the epoch / since midnight):
    # they may be accepted, and then mean exactly that instant - outside the range the column's python type can express
    # they cannot be read back and must be rejected
    if typ == "date":
        if isinstance(v, dt.date) and not isinstance(v, dt.datetime):
            return ("exact", v)
        if isinstance(v, int):
            try:
                return ("either", dt.date(1970, 1, 1) + dt.timedelta(days=v))
            except OverflowError:
                return REJECT
        return REJECT
    if typ == "timestamp":
        if isinstance(v, dt.datetime) and v.tzinfo is None:
            return ("exact", v)
        if isinstance(v, int):
            try:
                return ("either", dt.datetime(1970, 1, 1) + dt.timedelta(microseconds=v))
            except OverflowError:
                return REJECT
        return REJECT
    if typ == "time":
        if isinstance(v, dt.time):
            return ("exact", v)
        if isinstance(v, int):
            if 0 <= v < 86400 * 10**6:
                return ("either", (dt.datetime(1970, 1, 1) + dt.timedelta(microseconds=v)).time())
            return REJECT
        return REJECT
    raise ValueError(typ)


WRONG = {
    "boolean": [1, 0, 1.0, "a", "true", b"a"],
    "int": [2**31, -(2**31) - 1, 2**40, 1.5, 0.1, -2.5, float("nan"), float("inf"), 1e39, "1", b"a", dt.date(2020, 1, 1), 1.0, -3.0],
    "long": [2**63, -(2**63) - 1, 1.5, 0.1, -0.5, float("nan"), float("-inf"), "1", 1.0, 2.0**53, 1e18, 1e19],
    "float": [1e39, -1e300, 3.5e38, 16777217, 2**40 + 1, "1.5", 3, 16777216],
    "double": [2**53 + 1, 2**64 + 1, "1.5", b"1", 7, 2**53],
    "string": [1, 1.5, b"\xff\xfe", b"ok", dt.date(2020, 1, 1)],
    "uuid": [1, 1.5, b"ok"],
    "binary": [1, 1.5, "txt"],
    "date": ["2020-01-01", 1.5, 0.1, dt.time(1, 2, 3), 5, -1, 2932896, 2932897, 10_000_000, -719162, -719163, 2**31],
    "timestamp": ["2020-01-01T00:00:00", 1.5, dt.date(2020, 1, 1), dt.time(1, 2), 5, -1, 253402300799999999, 253402300800000000, 2**62,
                  -62135596800000000, -62135596800000001, 2**63],
    "time": ["01:02:03", 1.5, 0.25, dt.date(2020, 1, 1), 5, 86399999999, 86400000000, -1, 2**63],
}

SCHEMA_VARIANTS = ["omitted", "omitted", "identical", "copy", "reordered", "renumbered", "type", "nullability", "extra", "missing", "other_id"]


def _hx(i):
    import hashlib

    return hashlib.sha256(str(i).encode()).hexdigest()


@st.composite
def batch(draw, fields, wrong_p=True):
    if draw(st.integers(0, 59)) == 0:
        # a batch larger than the writer's internal batch size: exact values, extremes far from the start
        n = draw(st.sampled_from([1001, 1200, 2100]))
        seedrows = [{f["name"]: draw(tbl.value_strategy(f["type"])) for f in fields} for _ in range(4)]
        filler = {f["name"]: draw(tbl.value_strategy(f["type"], small=True)) for f in fields}
        rows = [dict(filler) for _ in range(n)]
        if draw(st.booleans()):
            # a FAT file (well beyond 64 KiB on disk): values that differ from row to row defeat dictionary / run-length encoding
            for i, r in enumerate(rows):
                for f in fields:
                    if f["type"] in ("string",):
                        r[f["name"]] = _hx(i) + _hx(-i - 1)  # 128 incompressible characters
                    elif f["type"] in ("int", "long"):
                        r[f["name"]] = (i * 7919) % 100003
                    elif f["type"] == "double":
                        r[f["name"]] = ((i * 7919) % 100003) / 8.0
                    elif f["type"] == "binary":
                        r[f["name"]] = bytes.fromhex(_hx(i) + _hx(-i - 1))
        for p_, r in zip(draw(st.lists(st.integers(0, n - 1), min_size=4, max_size=4)), seedrows):
            rows[p_] = r
        return rows, ["big-batch"]
    n = draw(st.integers(0, 4))
    rows, klass = [], set()
    for _ in range(n):
        r = {}
        for f in fields:
            k = draw(st.sampled_from(["exact"] * 8 + ["none", "missing"] + (["wrong"] if wrong_p else [])))
            if k == "exact":
                r[f["name"]] = draw(tbl.value_strategy(f["type"]))
            elif k == "none":
                r[f["name"]] = None
                klass.add("null")
            elif k == "missing":
                klass.add("missing-key")
            else:
                r[f["name"]] = draw(st.sampled_from(WRONG[f["type"]]))
                klass.add("wrong-value")
        if draw(st.integers(0, 19)) == 0:
            r["zz_unknown"] = 1
            klass.add("unknown-key")
        rows.append(r)
    return rows, sorted(klass)


@st.composite
def history(draw):
    schemaless = draw(st.integers(0, 5)) == 0
    fields = draw(tbl.schema_fields(1, 4))
    if len(fields) < 2 and draw(st.booleans()):
        fields = fields + [{"id": 50, "name": "k2", "type": "long", "required": False}]
    steps = []
    for i in range(draw(st.integers(1, 4))):
        kind = draw(st.sampled_from(["records"] * 4 + ["file"]))
        fresh = draw(st.booleans())
        if kind == "records":
            variant = draw(st.sampled_from(SCHEMA_VARIANTS if not schemaless else ["identical", "copy", "reordered", "renumbered", "other_fields", "other_id", "identical"]))
            rows, klass = draw(batch(fields))
            # now and then the k-th write of rows into the parquet file fails with an I/O error (once): such an append is refused
            # (and leaves no trace) or, if it is accepted, holds every row
            wf = draw(st.sampled_from([None] * 7 + [1, 1, 2]))
            steps.append({"op": "records", "fresh": fresh, "variant": variant, "rows": rows, "klass": klass, **({"wfault": wf} if wf else {})})
        else:
            fv = draw(st.sampled_from(["equal", "equal", "reordered", "nullability", "type", "extra"]))
            ex = [f for f in fields]
            rows = draw(tbl.rows_for(ex, 1, 3, null_p=False))
            # the record count the CALLER declares for its pre-built file is not checked against the file: whatever it says, an accepted file's rows are the file's rows
            steps.append({"op": "file", "fresh": fresh, "variant": fv, "rows": rows, "klass": [], "count": draw(st.sampled_from(["exact", "exact", 0, 1, 10**6]))})
    if draw(st.integers(0, 11)) == 0 and not schemaless:
        # state carried by a long-lived handle: an accepted sparse batch (optional column omitted / NULL), then an unrepresentable value in it
        opt = [f for f in fields if not f.get("required") and WRONG.get(f["type"])]
        if opt:
            fx = draw(st.sampled_from(opt))
            def exact_row(skip=None, nul=None):
                r = {}
                for f in fields:
                    if f["name"] == skip:
                        continue
                    r[f["name"]] = None if f["name"] == nul else draw(tbl.value_strategy(f["type"]))
                return r
            mode = draw(st.sampled_from(["missing", "null"]))
            sparse = [exact_row(skip=fx["name"]) if mode == "missing" else exact_row(nul=fx["name"]) for _ in range(draw(st.integers(1, 2)))]
            bad = exact_row()
            bad[fx["name"]] = draw(st.sampled_from(WRONG[fx["type"]]))
            pre = [{"op": "records", "fresh": draw(st.booleans()), "variant": "omitted", "rows": [exact_row()], "klass": []}] if draw(st.booleans()) else []
            steps = pre + [{"op": "records", "fresh": False, "variant": "omitted", "rows": sparse, "klass": ["missing-key"]},
                           {"op": "records", "fresh": False, "variant": draw(st.sampled_from(["omitted", "identical"])), "rows": [bad], "klass": ["wrong-value", "after-sparse"]}]
    return {"kind": "history", "schemaless": schemaless, "fields": fields, "steps": steps}


def _variant_schema(fields, variant, base_schema_obj):
    """Build the schema= argument for an append."""
    F = [dict(f) for f in fields]
    sid = 1
    if variant == "omitted":
        return None
    if variant == "identical":
        return base_schema_obj
    if variant == "copy":
        pass
    elif variant == "reordered":
        F = list(reversed(F)) if len(F) > 1 else F
    elif variant == "renumbered":
        ids = [f["id"] for f in F]
        if len(F) > 1:
            ids = ids[1:] + ids[:1]
        else:
            ids = [ids[0] + 1]
        for f, i in zip(F, ids):
            f["id"] = i
    elif variant == "type":
        F[0]["type"] = "string" if F[0]["type"] != "string" else "long"
    elif variant == "nullability":
        F[0]["required"] = not F[0].get("required", False)
    elif variant == "extra":
        F.append({"id": 77, "name": "extra_col", "type": "long", "required": False})
    elif variant == "missing":
        F = F[:-1] if len(F) > 1 else F + [{"id": 77, "name": "extra_col", "type": "long", "required": False}]
    elif variant == "other_id":
        sid = 2
    elif variant == "other_fields":
        F = [{"id": f["id"], "name": f["name"] + "_b", "type": f["type"], "required": False} for f in F]
    return tbl.make_schema(F, sid)


_ARROW = None


import contextlib as _ctxl


@_ctxl.contextmanager
def _write_fault(k):
    """The k-th ParquetWriter.write_table call inside the block raises EIO (once)."""
    fired = [False]
    if not k:
        yield fired
        return
    import pyarrow.parquet as pq

    orig = pq.ParquetWriter.write_table
    n = [0]

    def wt(self, *a, **kw):
        n[0] += 1
        if n[0] == k and not fired[0]:
            fired[0] = True
            raise OSError(5, "injected: I/O error while writing rows")
        return orig(self, *a, **kw)

    pq.ParquetWriter.write_table = wt
    try:
        yield fired
    finally:
        pq.ParquetWriter.write_table = orig


def _arrow_type(t):
    import pyarrow as pa

    return {"boolean": pa.bool_(), "int": pa.int32(), "long": pa.int64(), "float": pa.float32(), "double": pa.float64(),
            "date": pa.date32(), "time": pa.time64("us"), "timestamp": pa.timestamp("us"), "string": pa.string(),
            "uuid": pa.string(), "binary": pa.binary()}[t]


def _write_external(root, n, fields, rows, variant, count="exact"):
    import pyarrow as pa
    import pyarrow.parquet as pq
    from datashard import DataFile, FileFormat

    F = [dict(f) for f in fields]
    R = [dict(r) for r in rows]
    if variant == "reordered" and len(F) > 1:
        F = list(reversed(F))
    elif variant == "nullability":
        F[0]["required"] = not F[0].get("required", False)
    elif variant == "type":
        old = F[0]["type"]
        F[0]["type"] = "string" if old != "string" else "long"
        for r in R:
            r[F[0]["name"]] = "s" if old != "string" else 1
    elif variant == "extra":
        F.append({"id": 78, "name": "extra_col", "type": "long", "required": False})
        for r in R:
            r["extra_col"] = 5
    sch = pa.schema([pa.field(f["name"], _arrow_type(f["type"]), nullable=not f.get("required", False)) for f in F])
    tb = pa.Table.from_pylist(R, schema=sch)
    rel = f"data/ext_{n}.parquet"
    p = os.path.join(root, rel)
    os.makedirs(os.path.dirname(p), exist_ok=True)
    pq.write_table(tb, p)
    sig = [(f["name"], f["type"], bool(f.get("required", False))) for f in F]
    return DataFile(file_path="/" + rel, file_format=FileFormat.PARQUET, partition_values={}, record_count=len(R) if count in (None, "exact") else count,
                    file_size_in_bytes=os.path.getsize(p)), tb.to_pylist(), sig


def _state(root):
    fs = DirFS(root)
    try:
        ptr = fs.get(HINT)
    except KeyError:
        ptr = None
    v = read_view(fs)
    return ptr, view_digest(v), reachable_files(v), v


def check_history(case):
    out = {"violations": [], "labels": [], "nontrivial": False}
    fields = case["fields"]
    ftype = {f["name"]: f["type"] for f in fields}
    freq = {f["name"]: bool(f.get("required")) for f in fields}
    with scratch_dir("c11") as d:
        root = d + "/t"
        base_schema = tbl.make_schema(fields, 1)
        if case["schemaless"]:
            import datashard

            t = datashard.create_table(root)
            out["labels"].append("schemaless")
        else:
            import datashard

            t = datashard.create_table(root, base_schema)
        model = []  # expected stored rows (dicts over table column names)
        first_sig = None  # schemaless tables: column layout of the first accepted write
        divergent = False
        for n, step in enumerate(case["steps"]):
            if step["fresh"]:
                t = load(root)
                out["labels"].append("fresh-handle")
            else:
                out["labels"].append("reused-handle")
            before = _state(root)
            variant = step["variant"]
            must_reject, why = False, ""
            expected_rows = []
            if step["op"] == "records":
                out["labels"].append(f"schema:{variant}")
                sch = _variant_schema(fields, variant, base_schema)
                if case["schemaless"] and sch is None:
                    sch = base_schema
                sig = [(f["name"], f["type"], bool(f.get("required", False))) for f in (sch.fields if sch is not None else fields)]
                names = set(ftype)
                if variant == "other_fields":
                    rows = [{k + "_b": v for k, v in r.items() if k in names} for r in step["rows"]]
                    rtype = {k + "_b": v for k, v in ftype.items()}
                    rreq = {k + "_b": False for k in ftype}
                else:
                    rows, rtype, rreq = step["rows"], ftype, freq
                for r in rows:
                    er = {}
                    for col, typ in rtype.items():
                        if col not in r or r[col] is None:
                            if rreq[col]:
                                must_reject, why = True, f"NULL/missing in required column {col}"
                            er[col] = None
                            continue
                        rep = represent(typ, r[col])
                        if rep is REJECT:
                            must_reject, why = True, f"value {r[col]!r} not representable in {typ} column {col}"
                            er[col] = None
                        else:
                            er[col] = rep[1]
                    unknown = set(r) - set(rtype)
                    if unknown:
                        must_reject, why = True, f"unknown field(s) {sorted(unknown)}"
                    expected_rows.append(er)
                if variant != "omitted" or step["klass"]:
                    out["nontrivial"] = True
                for k in step["klass"]:
                    out["labels"].append(f"val:{k}")
                try:
                    with _write_fault(step.get("wfault")) as wfired:
                        t.append_records(rows, schema=sch)
                    ok, exc = True, None
                    if wfired and wfired[0]:
                        out["labels"].append("write-fault-fired:accepted")
                except Exception as e:  # noqa
                    if step.get("wfault"):
                        out["labels"].append("write-fault:raised")
                    ok, exc = False, e
            else:
                out["labels"].append("files")
                out["labels"].append(f"file:{variant}")
                out["nontrivial"] = True
                df, expected_rows, sig = _write_external(root, n, fields, step["rows"], variant, step.get("count", "exact"))
                if step.get("count", "exact") != "exact":
                    out["labels"].append("file-declared-count-differs")
                try:
                    t.append_data([df])
                    ok, exc = True, None
                except Exception as e:  # noqa
                    ok, exc = False, e
            try:
                after = _state(root)
            except ReadError as e:
                out["violations"].append((f"unreadable-after-append/{step['op']}:{variant}" if ok else f"rejected-left-trace/{step['op']}",
                                          f"step {n} ({step['op']}, {variant}) {'was accepted' if ok else 'raised ' + type(exc).__name__} and the independent reader can no longer read the table: {e}; rows={step['rows']!r}"[:600]))
                return out
            if not ok:
                out["labels"].append("rejected")
                if before[0] != after[0] or before[1] != after[1] or before[2] != after[2]:
                    out["violations"].append((f"rejected-left-trace/{step['op']}", f"step {n} ({step['op']}, {variant}) raised {type(exc).__name__} but the table changed"))
                    return out
                continue
            out["labels"].append("accepted")
            if must_reject:
                out["violations"].append(("accepted-unrepresentable/" + why.split(" in ")[-1].split(" column")[0].split()[0 if "unknown" in why or "NULL" in why else -1],
                                          f"step {n}: append accepted although {why}; rows={step['rows']!r}"))
                return out
            model.extend(expected_rows)
            if case["schemaless"]:
                if first_sig is None:
                    first_sig = sig
                elif sig != first_sig:
                    divergent = True
                    out["labels"].append("schemaless-divergent")
            # ---- reads after an accepted append, on a fresh handle
            vtag = f"{step['op']}:{variant}" + ("/schemaless" if case["schemaless"] else "")
            if divergent:
                # one root cause (known finding): a table without a persisted schema enforces nothing between appends
                vtag = "schemaless-divergent-schema-accepted"
            ref = rows_multiset(model)
            try:
                ind = current_rows(after[3])
            except Exception as e:  # noqa
                out["violations"].append((f"unreadable-after-append/{vtag}", f"independent reader failed after step {n}: {e}"))
                return out
            rt = load(root)
            big = len(model) > 500
            for api in (READ_APIS if not big else ["scan", "batches_big"]):
                try:
                    got = rows_multiset(run_read(rt, api))
                except Exception as e:  # noqa
                    out["violations"].append((f"scan-fails-after-append/{vtag}", f"step {n} accepted, then {api} raised {type(e).__name__}: {str(e)[:160]}"))
                    return out
                if got != ref:
                    out["violations"].append((f"rows-altered/{vtag}", f"step {n} accepted; {api} returned {sum(got.values())} rows; extra={list((got - ref).items())[:2]!r} missing={list((ref - got).items())[:2]!r}"))
                    return out
            if ind != ref:
                out["violations"].append((f"rows-altered/{vtag}", f"step {n}: independent read differs from accepted rows"))
                return out
            # one equality and one range filter per column, literals from the data
            cols = list(model[0].keys()) if model else []
            for col in cols:
                vals = [r[col] for r in model if r.get(col) is not None]
                if not vals:
                    continue
                lits = [vals[len(vals) // 2]]
                try:
                    import math as _m
                    cmpv = [x for x in vals if not (isinstance(x, float) and _m.isnan(x))]
                    if cmpv:
                        lits += [max(cmpv), min(cmpv)]
                except TypeError:
                    pass
                flts = []
                for lit in lits[:3]:
                    flts += [{col: lit}, {col: (">=", lit)}, {col: ("<", lit)}]
                for flt in flts:
                    try:
                        want = rows_multiset(tbl.reference_scan(model, flt))
                    except (tbl.Incomparable, tbl.NaNInSet):
                        continue
                    for api in (("scan", "batches2") if not big else ("scan",)):
                        try:
                            got = rows_multiset(run_read(rt, api, flt))
                        except Exception as e:  # noqa
                            out["violations"].append((f"filter-fails-after-append/{vtag}", f"filter {flt!r} via {api} raised {type(e).__name__}: {str(e)[:120]}"))
                            return out
                        if got != want:
                            out["violations"].append((f"misfilter-after-append/{vtag}", f"filter {flt!r} via {api}: got {sum(got.values())} rows, want {sum(want.values())}"))
                            return out
    return out


def plan(tier, seed):
    n = 300 if tier == "quick" else 3000
    return [{"n": n, "seed": seed * 1000 + s, "tier": tier} for s in range(16)]


def run_task(task):
    res = Result()
    campaign(history(), check_history, task["n"], task["seed"], res, PROP, shrink=task["tier"] == "thorough")
    return res


def replay(case):
    o = check_history(case)
    return [{"bucket": b, "what": w} for b, w in o["violations"]]
