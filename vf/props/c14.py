"""C14 - Reads fail closed: damaged or missing files raise, never yield partial rows."""
from __future__ import annotations

import hashlib
import io
import json
import os

import fastavro
import pyarrow.parquet as pq
from hypothesis import strategies as st

from ..common import Result, chash, scratch_dir
from ..fakes3 import client_error
from ..hist import FIELDS
from ..hyp import campaign
from ..lib import READ_APIS, run_read, spy_pruning
from ..reader import norm, read_view, current_snapshot, rows_multiset
from ..tbl import make_schema
from ..world import LocalWorld, S3World, Stepper
from . import c04

PROP = "C14"
LEVEL = "fault_enumeration"
RULE = ("Hypothesis-generated tables (1-3 snapshots, 1-4 data files, optionally a manifest rewritten by a delete) on the local backend and on the fake S3 "
        "(range-read path). For EVERY file reachable from the current snapshot (metadata json, manifest list, each manifest, each data file) x damage in "
        "{delete, truncate at 0 / structural boundaries / 4 generated offsets, random bytes, sibling's bytes and one flipped byte per region (data files), "
        "persistent read error on that file} x every read API (scan, parallel scan, batches of 1 / 10^4, iter_records, row_count) x verify_checksums "
        "{default on, off} x filter {none, pruning, non-pruning}. A metadata-plane damage is in the domain only if an independent parser (json / fastavro + "
        "legacy JSON shape) also rejects the bytes. Mid-read damage: a table with a multi-row-group data file; the file is replaced (sibling's bytes, flipped byte, "
        "truncation, random bytes, deletion) right after EACH traced storage call that touches it during a verified read, or while a lazy read is suspended "
        "after its first item; the read must raise or return exactly the table. Racing commit: a manifest / data file of the current snapshot deleted or cut, and "
        "another handle commits an append right after the k-th traced call of the read, for every k: the read must still raise. Non-trivial: the damaged file is needed by the read. distinct = (table, file class, damage, api, verify, filter).")
ASSUMPTIONS = ["'needed' is fixed per API from its documentation: scans need pointer->metadata->manifest list->manifests->every unpruned data file; row_count "
               "needs the metadata plane only", "a replacement that still parses (sibling bytes, benign flip) is unconstrained with verification off",
               "damage to the pointer itself is C10's subject and is not generated here"]
REQUIRED_LABELS = {"quick": ["file:data", "file:manifest", "file:mlist", "file:metadata", "needed"], "thorough": ["needed"]}

APIS = ["scan", "scan_par2", "batches1", "batches_big", "iter_records", "row_count"]


@st.composite
def table_case(draw):
    world = draw(st.sampled_from(["local", "local", "s3cas"]))
    nfiles = draw(st.integers(1, 4))
    files = [draw(st.integers(1, 3)) for _ in range(nfiles)]
    rewrite = draw(st.booleans()) and nfiles >= 2
    offsets = draw(st.lists(st.integers(1, 4000), min_size=4, max_size=4))
    rnd = draw(st.binary(min_size=8, max_size=64))
    flt_at = draw(st.integers(0, nfiles))
    return {"kind": "table", "world": world, "files": files, "rewrite": rewrite, "offsets": offsets, "rnd": rnd, "flt_at": flt_at, "prebuilt_first": draw(st.booleans())}


def _read(t, api, flt, verify):
    if api == "row_count":
        return ("count", t.row_count())
    return ("rows", rows_multiset(run_read(t, api, flt, None, verify)))


def _parse_ok(cls, data):
    """Does an independent parser accept these bytes as a file of this class?"""
    try:
        if cls == "metadata":
            d = json.loads(data.decode("utf-8"))
            return isinstance(d, dict)
        if cls in ("manifest", "mlist"):
            try:
                list(fastavro.reader(io.BytesIO(data)))
                return True
            except Exception:
                d = json.loads(data.decode("utf-8"))
                return isinstance(d, dict)
        pq.read_table(io.BytesIO(data))
        return True
    except Exception:
        return False


def _damages(cls, orig, case, sibling):
    n = len(orig)
    out = [("delete", None), ("truncate0", b"")]
    cuts = {1, 4, n // 2, max(n - 8, 1), n - 1} | {o % n for o in case["offsets"] if n > 1}
    for c in sorted(cuts):
        if 0 < c < n:
            out.append((f"truncate@{c}", orig[:c]))
    rnd = (case["rnd"] * (n // len(case["rnd"]) + 1))[:n]
    out.append(("random", rnd))
    if cls == "data":
        if sibling is not None:
            out.append(("sibling", sibling))
            # the file's bytes were replaced by another valid file AND the first read attempt of every API call fails: whatever path the
            # reader falls back to after the blip must still verify what it reads
            out.append(("sibling+read-error-once", ("COMBO", sibling)))
        for name, pos in (("flip-head", 2), ("flip-mid", n // 2), ("flip-footer", max(n - 20, 0)), ("flip-footerlen", max(n - 6, 0)), ("flip-tail", n - 1)):
            b = bytearray(orig)
            b[pos] ^= 0x41
            out.append((name, bytes(b)))
    if cls == "metadata":
        # still JSON, but without the section that lists the snapshots: the independent reader cannot read such a table
        try:
            doc = json.loads(orig.decode("utf-8"))
            doc.pop("snapshots")
            out.append(("key-removed-snapshots", json.dumps(doc).encode("utf-8")))
        except Exception:
            pass
    out.append(("read-error", "ERR"))
    # the same error, but only for the first one / two read attempts of every API call (a blip that is over when somebody retries)
    out.append(("read-error-once", "ERR1"))
    out.append(("read-error-twice", "ERR2"))
    return out


def check_table(case):
    out = {"violations": [], "labels": [f"world:{case['world']}"], "nontrivial": False}
    res_nontrivial = set()
    with scratch_dir("c14") as d:
        w = c04.make_world(d, case["world"])
        with w.env():
            t = w.create(make_schema(FIELDS))
            k = 0
            if case.get("prebuilt_first") and w.kind == "local":
                # a pre-built file handed in by the caller WITHOUT a checksum, committed first (planned before the library's own
                # files): it cannot be verified - every file after it still must be
                import pyarrow as pa
                from datashard import DataFile, FileFormat

                rel = "data/prebuilt-00000.parquet"
                pth = os.path.join(w.root, rel)
                os.makedirs(os.path.dirname(pth), exist_ok=True)
                pq.write_table(pa.Table.from_pylist([{"k": 9000, "s": "pre"}, {"k": 9001, "s": "pre"}], schema=pa.schema([pa.field("k", pa.int64()), pa.field("s", pa.string())])), pth)
                t.append_data([DataFile(file_path="/" + rel, file_format=FileFormat.PARQUET, partition_values={}, record_count=2, file_size_in_bytes=os.path.getsize(pth))])
                out["labels"].append("checksum-less-file-first")
            for i, nrows in enumerate(case["files"]):
                t.append_records([{"k": 10 * i + j, "s": f"f{i}"} for j in range(nrows)])
            if case["rewrite"]:
                # a partial delete never rewrites single-file manifests; append two files in one transaction, then delete one
                with t.new_transaction() as tx:
                    tx.append_data([{"k": 500, "s": "x"}])
                    tx.append_data([{"k": 600, "s": "y"}])
                    tx.commit()
                victim = [f for f in t._get_all_data_files()][-1].file_path
                with t.new_transaction() as tx:
                    tx.delete_files([victim])
                    tx.commit()
        v = read_view(w.fs())
        cur = current_snapshot(v)
        targets = [("metadata", "metadata/" + v["metadata_file"]), ("mlist", norm(cur["manifest_list"]))]
        targets += [("manifest", m) for m in cur["manifests"]]
        targets += [("data", p) for p in cur["files"]]
        nochecksum = {norm(e["path"]) for e in cur["entries"] if not e.get("checksum")}
        fs = w.fs()
        filters = {"none": None, "prune": {"k": (">=", 10 * case["flt_at"])}, "noprune": {"s": ("!=", "zzz")}}
        # undamaged answers + which files each filter keeps
        expected, kept = {}, {}
        with w.env():
            t = w.open()
            for fn, flt in filters.items():
                log = []
                with spy_pruning(log):
                    t.scan(filter=flt)
                kept[fn] = {norm(p) for p in (log[0][1] if log else [df.file_path for df in t._get_all_data_files()])}
                for api in APIS:
                    for ver in ((None, False) if api != "row_count" else (None,)):
                        if api == "row_count" and fn != "none":
                            continue
                        expected[(api, ver, fn)] = _read(t, api, flt, ver)
        data_paths = [p for c, p in targets if c == "data"]
        # a long-lived handle that has already read everything successfully (caches must not weaken later reads)
        with w.env():
            t_warm = w.open()
            for api in APIS:
                _read(t_warm, api, None, None)
        for cls, path in targets:
            orig = fs.get(path)
            sibling = None
            if cls == "data":
                others = [p for p in data_paths if p != path]
                sibling = fs.get(others[0]) if others else None
            for dname, payload in _damages(cls, orig, case, sibling):
                # ---- apply
                stepper = None
                budget = [None]
                combo = isinstance(payload, tuple) and payload[0] == "COMBO"
                if combo:
                    stepper = Stepper()

                    def fail1(n, phase, label, target, info, path=path):
                        if phase == "before" and target == path and budget[0] and (("open:" in label) or label.startswith("s3:get") or label.startswith("storage:read") or label.startswith("storage:open")):
                            budget[0] -= 1
                            if w.kind == "local":
                                raise OSError(5, "injected read error")
                            raise client_error("InternalError", "GetObject", 500)

                    stepper.handler = fail1
                    payload = payload[1]
                    _set(w, path, payload)
                    changed, parse_ok = payload != orig, True
                elif payload in ("ERR", "ERR1", "ERR2"):
                    stepper = Stepper()
                    once = {"ERR": None, "ERR1": 1, "ERR2": 2}[payload]

                    def fail(n, phase, label, target, info, path=path, once=once):
                        if phase == "before" and target == path and (("open:" in label) or label.startswith("s3:get") or label.startswith("storage:read") or label.startswith("storage:open")):
                            if once is not None:
                                if budget[0] <= 0:
                                    return
                                budget[0] -= 1
                            if w.kind == "local":
                                raise OSError(5, "injected read error")
                            raise client_error("InternalError", "GetObject", 500)

                    stepper.handler = fail
                    changed, parse_ok = False, True
                elif payload is None:
                    _set(w, path, None)
                    changed, parse_ok = True, False
                else:
                    _set(w, path, payload)
                    changed = payload != orig
                    parse_ok = _parse_ok(cls, payload) and not dname.startswith("key-removed")
                if cls != "data" and payload not in (None, "ERR", "ERR1", "ERR2") and parse_ok:
                    _set(w, path, orig)
                    out["labels"].append("damage-still-parses(excluded)")
                    continue
                try:
                    with w.env(stepper):
                        if stepper is not None:
                            stepper.enabled = True
                        for (api, ver, fn), exp in expected.items():
                            needed = cls != "data" or (api != "row_count" and path in kept[fn])
                            must_raise = needed and (payload == "ERR" or not parse_ok or (cls == "data" and changed and ver is None and path not in nochecksum))
                            if payload in ("ERR1", "ERR2"):
                                # raising is right; so is the complete answer (somebody retried and the blip was over); nothing else is
                                budget[0] = 1 if payload == "ERR1" else 2
                                try:
                                    got = _read(w.open(), api, filters[fn], ver)
                                except Exception as e:  # noqa
                                    got = ("raise", type(e).__name__)
                                out["labels"].append("transient-read-error")
                                if needed:
                                    res_nontrivial.add(f"{case['world']}|{cls}|{dname}|{api}|{ver}|{fn}")
                                if got[0] != "raise" and got != exp:
                                    sym = "reported-empty" if got[0] == "rows" and not got[1] else ("returned-subset" if got[0] == "rows" and exp[0] == "rows" and not (got[1] - exp[1]) else "returned-other")
                                    out["violations"].append((f"fail-open/{cls}/{dname}/{sym}", f"{case['world']}: the first {budget and (1 if payload == 'ERR1' else 2)} read attempt(s) of {cls} file {path} fail during {api}(verify={ver}, filter={fn}): "
                                                              f"returned {_short(got)} instead of raising or the complete answer {_short(exp)}"))
                                continue
                            for handle_kind in ("fresh", "warm"):
                              if combo:
                                  budget[0] = 1
                                  if handle_kind == "warm":
                                      continue
                              if handle_kind == "warm" and payload == "ERR":
                                  continue
                              if handle_kind == "warm" and cls != "data" and (api not in ("scan", "row_count", "batches_big") or fn != "none"):
                                  continue
                              try:
                                t2 = w.open() if handle_kind == "fresh" else t_warm
                                got = _read(t2, api, filters[fn], ver)
                              except Exception as e:  # noqa
                                got = ("raise", type(e).__name__)
                              if handle_kind == "warm":
                                  out["labels"].append("warm-handle")
                              _judge(out, res_nontrivial, case, cls, dname, path, api, ver, fn, exp, got, needed, must_raise, handle_kind)
                            continue
                finally:
                    if payload not in ("ERR", "ERR1", "ERR2"):
                        _set(w, path, orig)
    out["nontrivial"] = bool(res_nontrivial)
    out["key"] = None
    out["extra_keys"] = sorted(res_nontrivial)
    # dedup violations per bucket
    seen, uniq = set(), []
    for b, wht in out["violations"]:
        if b not in seen:
            seen.add(b)
            uniq.append((b, wht))
    out["violations"] = uniq
    out["labels"] = sorted(set(out["labels"]))
    return out



def _judge(out, res_nontrivial, case, cls, dname, path, api, ver, fn, exp, got, needed, must_raise, handle_kind):
    key = f"{case['world']}|{cls}|{dname.split('@')[0]}|{api}|{ver}|{fn}|{handle_kind}"
    out["labels"].append(f"file:{cls}")
    if needed:
        out["labels"].append("needed")
        res_nontrivial.add(key)
    if got[0] == "raise":
        return
    if must_raise:
        if got == exp:
            sym = "returned-undamaged-answer"
        elif got[0] == "rows" and not got[1]:
            sym = "reported-empty"
        elif got[0] == "rows" and exp[0] == "rows" and not (got[1] - exp[1]):
            sym = "returned-subset"
        else:
            sym = "returned-other"
        dn = dname.split("@")[0]
        if cls == "metadata" and dn == "delete":
            sym = "served-older-version"  # one root cause, whatever the older version happens to contain
        hk = "" if handle_kind == "fresh" or sym == "served-older-version" else "/warm-handle"
        out["violations"].append((f"fail-open/{cls}/{dn}/{sym}{hk}",
                                  f"{case['world']}: {cls} file {path} damaged by {dname}; {api}(verify={ver}, filter={fn}) through a {handle_kind} handle returned {_short(got)} instead of raising (undamaged: {_short(exp)})"))
    elif not needed and got != exp:
        out["violations"].append((f"unneeded-damage-changed-answer/{cls}", f"{cls} file {path} ({dname}) is not needed by {api}(filter={fn}) but the answer changed"))


def _short(r):
    return (r[0], r[1] if r[0] != "rows" else f"{sum(r[1].values())} rows")


def _set(w, path, data):
    if w.kind == "local":
        p = os.path.join(w.root, path)
        if data is None:
            os.remove(p)
        else:
            with open(p, "wb") as f:
                f.write(data)
    else:
        key = w.key_prefix + "/" + path
        if data is None:
            w.fake.objects.pop(key, None)
        else:
            w.fake.raw_put(key, data)


# ---------------- damage that lands WHILE a verified read is in progress ----------------
MID_APIS = ["scan", "scan_par2", "batches_big", "batches400", "iter_records"]


@st.composite
def midread_case(draw):
    return {"kind": "midread", "world": draw(st.sampled_from(["local", "local", "s3cas"])), "nbig": draw(st.sampled_from([1001, 1500, 2300])),
            "nsmall": draw(st.integers(1, 3)), "flip": draw(st.integers(0, 10**6)), "rnd": draw(st.binary(min_size=8, max_size=32)),
            "big_first": draw(st.booleans())}


def _mid_read(t, api, suspend_hook=None):
    """Rows of a verified (default) read; for the lazy APIs `suspend_hook` runs once after the first item was taken."""
    if api in ("scan", "scan_par2"):
        return rows_multiset(t.scan(parallel=2) if api == "scan_par2" else t.scan())
    gen = t.iter_records() if api == "iter_records" else t.scan_batches(batch_size=10000 if api == "batches_big" else 400)
    rows, first = [], True
    for item in gen:
        if api == "iter_records":
            rows.append(item)
        else:
            rows.extend(item)
        if first and suspend_hook is not None:
            suspend_hook()
        first = False
    return rows_multiset(rows)


def check_midread(case):
    """With verification on, the bytes that are decoded are the bytes that were verified: a data file that changes while a
    read is under way (after any storage call that touched it, or while a lazy read is suspended between two items) makes
    the read raise or return exactly the undamaged rows - never altered or partial ones."""
    out = {"violations": [], "labels": [f"world:{case['world']}", "midread"], "nontrivial": True}
    with scratch_dir("c14m") as d:
        w = c04.make_world(d, case["world"])
        big = [{"k": j, "s": f"big{j % 7}"} for j in range(case["nbig"])]
        small = [{"k": 100000 + j, "s": "small"} for j in range(case["nsmall"])]
        with w.env():
            t = w.create(make_schema(FIELDS))
            for rows in ((big, small) if case["big_first"] else (small, big)):
                t.append_records(rows)
        v = read_view(w.fs())
        cur = current_snapshot(v)
        fs = w.fs()
        by_size = sorted(cur["files"], key=lambda p: len(fs.get(p)))
        small_path, big_path = by_size[0], by_size[-1]
        orig = fs.get(big_path)
        n = len(orig)
        flipped = bytearray(orig)
        flipped[n // 3 + case["flip"] % max(n // 2, 1)] ^= 0x5A
        payloads = [("sibling", fs.get(small_path)), ("flip", bytes(flipped)), ("truncate", orig[: n // 2]), ("random", (case["rnd"] * (n // len(case["rnd"]) + 1))[:n]), ("delete", None)]
        want = rows_multiset(big + small)
        for api in MID_APIS:
            # clean run: which traced calls touch the file?
            st0 = Stepper()
            with w.env(st0):
                t0 = w.open()
                st0.enabled = True
                got0 = _mid_read(t0, api)
                st0.enabled = False
            if got0 != want:
                out["violations"].append((f"midread/undamaged-read-wrong/{api}", f"{api} on the undamaged table returned {sum(got0.values())} rows, expected {sum(want.values())}"))
                continue
            touches = [i for i, (_n, ph, label, target) in enumerate(st0.events) if ph == "after" and target == big_path]
            points = [("step", i) for i in range(len(touches))] + ([("suspended", 0)] if api in ("batches400", "iter_records") else [])
            for dname, payload in payloads:
                for kind, k in points:
                    sti = Stepper()
                    seen = [0]
                    done = [False]

                    def damage():
                        if not done[0]:
                            done[0] = True
                            _set(w, big_path, payload)

                    def h(nn, phase, label, target, info, k=k, kind=kind):
                        if kind == "step" and phase == "after" and target == big_path and not done[0]:
                            if seen[0] == k:
                                damage()
                            seen[0] += 1

                    sti.handler = h
                    try:
                        with w.env(sti):
                            t2 = w.open()
                            sti.enabled = True
                            try:
                                got = _mid_read(t2, api, suspend_hook=damage if kind == "suspended" else None)
                            except Exception as e:  # noqa
                                got = e
                            sti.enabled = False
                    finally:
                        _set(w, big_path, orig)
                    out["labels"].append(f"mid:{kind}")
                    out["labels"].append("mid:raised" if isinstance(got, Exception) else "mid:returned")
                    if not done[0] or isinstance(got, Exception):
                        continue
                    if got != want:
                        sym = "partial" if not (got - want) else "altered"
                        out["violations"].append((f"midread/{sym}-rows/{api}/{kind}", f"{case['world']}: data file {big_path} replaced by '{dname}' {'after traced call #' + str(k) + ' on it' if kind == 'step' else 'while the lazy read was suspended after its first item'}; "
                                                  f"{api}() with verification on returned {sum(got.values())} rows ({sum((got - want).values())} not in the table, {sum((want - got).values())} missing) instead of raising or returning the table"))
    seen_b, uniq = set(), []
    for b, wht in out["violations"]:
        if b not in seen_b:
            seen_b.add(b)
            uniq.append((b, wht))
    out["violations"] = uniq
    out["labels"] = sorted(set(out["labels"]))
    return out


# ---------------- damage + a commit that lands while the read is in progress ----------------
@st.composite
def racing_case(draw):
    return {"kind": "racing", "world": draw(st.sampled_from(["local", "local", "s3cas"])), "nfiles": draw(st.integers(2, 3)), "cut": draw(st.integers(1, 4000)),
            "apis": draw(st.lists(st.sampled_from(["scan", "scan_par2", "batches1", "batches_big", "iter_records", "row_count"]), min_size=2, max_size=3, unique=True))}


def check_racing(case):
    """A manifest or data file of the current snapshot is missing / cut, AND another handle commits an append at some point
    during the read (forced after the k-th traced call of the read, for every k). An append carries the damaged file
    over, so it is needed before and after that commit: the read must raise, whichever snapshot it ends up planning."""
    out = {"violations": [], "labels": [f"world:{case['world']}", "racing-commit"], "nontrivial": True}
    with scratch_dir("c14r") as d:
        w = c04.make_world(d, case["world"])
        with w.env():
            t = w.create(make_schema(FIELDS))
            for i in range(case["nfiles"]):
                t.append_records([{"k": 10 * i + j, "s": f"f{i}"} for j in range(2)])
        v = read_view(w.fs())
        cur = current_snapshot(v)
        fs = w.fs()
        targets = [("manifest", cur["manifests"][0]), ("data", cur["files"][0])]
        for cls, path in targets:
            orig = fs.get(path)
            for dname, payload in (("delete", None), ("truncate", orig[: max(1, case["cut"] % len(orig))])):
                if cls == "manifest" and payload is not None and _parse_ok(cls, payload):
                    continue
                for api in case["apis"]:
                    if cls == "data" and api == "row_count":
                        continue
                    k, nev = 0, None
                    while nev is None or k <= nev:
                        wi = w.clone(f"{d}/r{cls}{dname}{api}{k}") if w.kind == "local" else w.clone()
                        _set(wi, path, payload)
                        sti = Stepper()
                        state = {"n": 0, "busy": False, "done": False}
                        with wi.env(sti):
                            other = wi.open()
                            t2 = wi.open()

                            def h(nn, phase, label, target, info, k=k):
                                if phase != "after" or state["busy"] or state["done"]:
                                    return
                                state["n"] += 1
                                if state["n"] == k:
                                    state["busy"] = True
                                    try:
                                        other.append_records([{"k": 777, "s": "racing"}])
                                        state["done"] = True
                                    except Exception:
                                        state["done"] = "failed"
                                    finally:
                                        state["busy"] = False

                            sti.handler = h
                            sti.enabled = True
                            try:
                                got = _read(t2, api, None, None)
                            except Exception as e:  # noqa
                                got = ("raise", type(e).__name__)
                            sti.enabled = False
                        if nev is None:
                            nev = state["n"]  # k = 0: no interloper, counts the traced calls of this read
                        out["labels"].append("racing:raised" if got[0] == "raise" else "racing:returned")
                        if state["done"] is True:
                            out["labels"].append("commit-landed-during-read")
                        if got[0] != "raise":
                            out["violations"].append((f"fail-open/{cls}/{dname}/with-commit-during-read" if k else f"fail-open/{cls}/{dname}/returned-{'empty' if got[0] == 'rows' and not got[1] else 'rows'}",
                                                      f"{case['world']}: {cls} file {path} damaged by {dname}; another handle committed an append after traced call #{k} of {api}(); the read returned {_short(got)} instead of raising"))
                        if wi.kind == "local":
                            import shutil

                            shutil.rmtree(wi.root, ignore_errors=True)
                        k += 1
    seen_b, uniq = set(), []
    for b, wht in out["violations"]:
        if b not in seen_b:
            seen_b.add(b)
            uniq.append((b, wht))
    out["violations"] = uniq
    out["labels"] = sorted(set(out["labels"]))
    return out


def plan(tier, seed):
    n = 2 if tier == "quick" else 20
    tasks = [{"n": n, "seed": seed * 1000 + s, "tier": tier} for s in range(16)]
    tasks += [{"kind": "racing", "n": 1 if tier == "quick" else 4, "seed": seed * 1000 + 800 + s, "tier": tier} for s in range(4 if tier == "quick" else 16)]
    tasks += [{"kind": "midread", "n": 2 if tier == "quick" else 10, "seed": seed * 1000 + 500 + s, "tier": tier} for s in range(4 if tier == "quick" else 16)]
    return tasks


def run_task(task):
    res = Result()
    if task.get("kind") == "midread":
        campaign(midread_case(), check_midread, task["n"], task["seed"], res, PROP, shrink=False)
        return res
    if task.get("kind") == "racing":
        campaign(racing_case(), check_racing, task["n"], task["seed"], res, PROP, shrink=False)
        return res
    extra = set()

    def chk(case):
        o = check_table(case)
        extra.update(o.pop("extra_keys", []))
        return o

    campaign(table_case(), chk, task["n"], task["seed"], res, PROP, shrink=False)
    res.nontrivial.update(extra)
    res.evaluations += len(extra)
    res.extra["exhaustive_over_files_x_damages_x_apis"] = True
    return res


def replay(case):
    if case.get("kind") == "midread":
        o = check_midread(case)
        return [{"bucket": b, "what": w} for b, w in o["violations"]]
    if case.get("kind") == "racing":
        o = check_racing(case)
        return [{"bucket": b, "what": w} for b, w in o["violations"]]
    o = check_table(case)
    return [{"bucket": b, "what": w} for b, w in o["violations"]]
