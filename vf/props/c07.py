"""C07 - Garbage collection fails closed."""
from __future__ import annotations

import json
import os
import time

from hypothesis import strategies as st

from ..common import Result, scratch_dir
from ..fakes3 import client_error
from ..hist import FIELDS
from ..reader import norm, read_view, reachable_files
from ..tbl import make_schema
from ..world import LocalWorld, S3World, Stepper
from . import c04
from .c14 import _parse_ok, _set

PROP = "C07"
LEVEL = "fault_enumeration"
RULE = ("Tables (local and fake S3; 2-4 retained snapshots chosen by the seed) with a manifest rewritten by a partial delete, a live transaction whose data "
        "file is 2 h old, an in-flight manifest protected by a payload marker, a data file protected by a legacy empty-payload marker, an abandoned (25 h) "
        "marker, uncommitted metadata files of the current and of the NEXT version number (crash leftovers; the latter references only the current snapshot), and deletable 2 h old orphans, all reachable files aged 2 h so that any wrong decision deletes something. (a) a fault at EVERY step of a "
        "clean collection run (local: storage API calls and the os-level calls under them, once as a one-shot error and once persisting for that call on that file; S3 (2 keys per listing page): every request, once as a single transient error that the retry layer absorbs and once failing persistently through all retries), "
        "(b) each of the three listings returning an escaping path, (c) every reachable metadata-plane file x {delete, truncations, random bytes} that an "
        "independent parser rejects, plus the current metadata file as valid JSON without its 'snapshots' section, (d) each existence probe of the collection wrongly answering False (an I/O error swallowed into 'does not exist'). After a run that raised, the SAME handle collects a second time (fault gone / damage still there) and both runs are judged together. Oracle: a run that raised deleted nothing; a run that returned deleted no file that is reachable in the UNDAMAGED "
        "table or protected by a live marker. Non-trivial: the fault hit a call whose result feeds the reachable/protected sets (anything before the first "
        "delete). distinct = (world, variant, fault class, normalised step).")
ASSUMPTIONS = ["ages are set with utime / LastModified rewriting; 'live' markers are younger than 24 h",
               "true reachability and protection are computed on the undamaged table by the independent reader and from the harness's own knowledge of the markers it planted"]
REQUIRED_LABELS = {"quick": ["a:fault", "b:escaping-listing", "c:corruption", "world:local", "world:s3cas"], "thorough": ["a:fault", "c:corruption"]}


def _age(w, rel, seconds):
    if w.kind == "local":
        p = os.path.join(w.root, rel)
        t = time.time() - seconds
        os.utime(p, (t, t))
    else:
        w.fake.age(seconds, w.key_prefix + "/" + rel)


def _put(w, rel, data, age=0):
    if w.kind == "local":
        p = os.path.join(w.root, rel)
        os.makedirs(os.path.dirname(p), exist_ok=True)
        with open(p, "wb") as f:
            f.write(data)
    else:
        w.fake.raw_put(w.key_prefix + "/" + rel, data)
    if age:
        _age(w, rel, age)


def build(w, variant):
    """Returns (live transaction object, P = protected paths, deletable paths)."""
    with w.env():
        t = w.create(make_schema(FIELDS))
        t.append_records([{"k": 1, "s": "a"}])
        t.append_records([{"k": 2, "s": "b"}])
        with t.new_transaction() as tx:
            tx.append_data([{"k": 3, "s": "c"}])
            tx.append_data([{"k": 4, "s": "d"}])
            tx.commit()
        victim = t._get_all_data_files()[-1].file_path
        with t.new_transaction() as tx:
            tx.delete_files([victim])
            tx.commit()
        if variant % 2 == 1:
            t.append_records([{"k": 5, "s": "e"}])
        if variant % 3 == 0:
            t.snapshot_manager.delete_snapshot(t.snapshots()[0]["snapshot_id"])
        before = set(w.fs().list("data"))
        tx_live = t.new_transaction().begin()
        tx_live.append_data([{"k": 50, "s": "live"}])
        live_file = sorted(set(w.fs().list("data")) - before)[0]
    P = {live_file}
    # in-flight manifest with a payload marker (what _register_inflight writes for a commit in progress)
    _put(w, "metadata/manifests/manifest_777_inflight.avro", b"not yet reachable manifest")
    _put(w, "metadata/inflight/manifest_777_inflight.avro.inflight", json.dumps({"file_path": "metadata/manifests/manifest_777_inflight.avro"}).encode())
    P.add("metadata/manifests/manifest_777_inflight.avro")
    # legacy marker without payload protects data/<basename>
    _put(w, "data/auto_legacy0000.parquet", b"legacy in-flight data")
    _put(w, "metadata/inflight/auto_legacy0000.parquet.inflight", b"")
    P.add("data/auto_legacy0000.parquet")
    # abandoned transaction: marker 25 h old
    _put(w, "data/auto_abandoned00.parquet", b"abandoned")
    _put(w, "metadata/inflight/auto_abandoned00.parquet.inflight", json.dumps({"file_path": "data/auto_abandoned00.parquet"}).encode())
    # crash leftover: a never-committed metadata file carrying the same version number as the current one (content of the previous version)
    import re as _re

    vcur = read_view(w.fs(), rows=False)
    mlog = vcur["metadata_log"]
    if mlog:
        prev_bytes = w.fs().get(mlog[-1]["metadata-file"])
        num = _re.match(r"v(\d+)", vcur["metadata_file"]).group(1)
        _put(w, f"metadata/v{num}-0badc0de.metadata.json", prev_bytes)
    # crash leftover of a LATER version: the metadata file of a transaction that died at its commit point after expiring every older
    # snapshot - uncommitted (the pointer never named it), and it references fewer files than the committed version does
    try:
        cur_doc = json.loads(w.fs().get("metadata/" + vcur["metadata_file"]).decode("utf-8"))
        cid = cur_doc.get("current_snapshot_id")
        cur_doc["snapshots"] = [sn for sn in cur_doc.get("snapshots", []) if sn.get("snapshot_id") == cid]
        cur_doc["snapshot_log"] = [e for e in cur_doc.get("snapshot_log", []) if e.get("snapshot_id") == cid]
        num1 = int(_re.match(r"v(\d+)", vcur["metadata_file"]).group(1)) + 1
        _put(w, f"metadata/v{num1}-0badf00d.metadata.json", json.dumps(cur_doc).encode("utf-8"))
    except Exception:
        pass
    # orphans
    _put(w, "data/orphan_old.parquet", b"orphan")
    _put(w, "metadata/manifests/manifest_orphan_old.avro", b"orphan")
    # age: everything in data/ and manifests/ 2 h, the abandoned pair 25 h, markers stay fresh
    for rel in w.fs().list("data") + w.fs().list("metadata/manifests"):
        _age(w, rel, 7200)
    _age(w, "data/auto_abandoned00.parquet", 90000)
    _age(w, "metadata/inflight/auto_abandoned00.parquet.inflight", 90000)
    deletable = {"data/orphan_old.parquet", "metadata/manifests/manifest_orphan_old.avro", "data/auto_abandoned00.parquet"}
    return tx_live, P, deletable


def listing(w):
    fs = w.fs()
    return set(fs.list("data")) | set(fs.list("metadata"))


def run_gc(w, stepper=None, escape_listing=None, lying_exists=None, again=None, escape_as=None):
    """returns (raised exception or None)"""
    with w.env(stepper):
        try:
            t = w.open()
        except Exception as e:  # noqa - a table that cannot even be opened cannot be collected: nothing deleted
            return e
        if lying_exists is not None:
            # the n-th existence probe of the collection answers False although the object exists (os.path.exists swallows every
            # OSError - EIO, ESTALE - into False; an S3-compatible gateway may answer a spurious 404)
            stg = t.storage
            orig_exists = stg.exists
            seen = lying_exists["seen"]

            def ex(path):
                r = orig_exists(path)
                seen[0] += 1
                if seen[0] == lying_exists["n"] and r:
                    lying_exists["lied_about"] = path
                    return False
                return r

            stg.exists = ex
        if escape_listing is not None:
            stg = t.storage
            orig = stg.list_files
            count = [0]

            def lf(prefix):
                r = orig(prefix)
                if prefix.rstrip("/") == escape_listing:
                    if escape_as is not None:
                        # a listing that is mostly right: the first entry stays table-relative, the others come back spelled through the
                        # parent directory ('../<table dir>/data/x') - they leave the root as strings and resolve to LIVE files inside it
                        r = list(r)
                        return r[:1] + [f"../{escape_as}/{x}" for x in r[1:]]
                    return list(r) + ["../outside/evil.parquet"]
                return r

            stg.list_files = lf
        if stepper is not None:
            stepper.enabled = True
        try:
            t.garbage_collect()
            return None
        except Exception as e:  # noqa
            if again is not None:
                # the SAME handle collects once more, now without the fault: whatever the aborted run left on the handle
                # (a half-filled cache ...) must not weaken this run
                if stepper is not None:
                    stepper.enabled = False
                    stepper.handler = None
                try:
                    t.garbage_collect()
                    again["second"] = None
                except Exception as e2:  # noqa
                    again["second"] = e2
            return e
        finally:
            if stepper is not None:
                stepper.enabled = False


def _avro_code_damages(cls, orig):
    import io

    import fastavro

    out = []
    try:
        rd = fastavro.reader(io.BytesIO(orig))
        schema, recs = rd.writer_schema, list(rd)
    except Exception:
        return out
    if not recs:
        return out

    def enc(rs):
        b = io.BytesIO()
        fastavro.writer(b, fastavro.parse_schema(schema), rs)
        return b.getvalue()

    import copy

    muts = []
    if cls == "mlist":
        muts = [("code-content-2", lambda r: r.__setitem__("content", 2)), ("code-content-neg", lambda r: r.__setitem__("content", -1))]
    else:
        muts = [("code-file-format", lambda r: r["data_file"].__setitem__("file_format", "orc2" if isinstance(r["data_file"].get("file_format"), str) else 99)),
                ("code-status-9", lambda r: r.__setitem__("status", 9))]
    for name, f in muts:
        for which in (0, -1):
            rs = copy.deepcopy(recs)
            try:
                f(rs[which])
                out.append((f"{name}@{'first' if which == 0 else 'last'}", enc(rs)))
            except Exception:
                continue
            if len(recs) == 1:
                break
    return out



def judge(res, w, before, R, P, raised, case, what):
    after = listing(w)
    deleted = before - after
    deleted = {d for d in deleted if not d.startswith("metadata/inflight/") and "/.tmp." not in d}
    if raised is not None and deleted:
        # allowed by the statement as long as every affected protection stayed in force (checked below): only true orphans went
        res.labels["raised-after-deleting-true-orphans"] += 1
    bad_r = sorted(d for d in deleted if d in R)
    bad_p = sorted(d for d in deleted if d in P)
    if bad_r:
        res.violation(f"deleted-reachable/{case['class']}", f"{what}: garbage_collect {'raised' if raised else 'returned'} and deleted reachable file(s) {bad_r[:3]}", case)
    elif bad_p:
        kind = "inflight-manifest" if any("manifest" in b for b in bad_p) else ("legacy-marker-file" if any("legacy" in b for b in bad_p) else "live-transaction-file")
        res.violation(f"deleted-protected/{case['class']}/{kind}", f"{what}: garbage_collect {'raised' if raised else 'returned'} and deleted in-flight file(s) {bad_p[:3]}", case)


def run_variant(task):
    res = Result()
    wk, variant = task["world"], task["variant"]
    with scratch_dir("c07") as d:
        base = c04.make_world(d, wk)
        if wk != "local":
            base.fake.page_size = 2  # every listing of the collector spans several pages
        tx_live, P, deletable = build(base, variant)
        v = read_view(base.fs())
        R = reachable_files(v) | {"metadata/" + v["metadata_file"]}
        before = listing(base)
        # ---- clean run
        w = base.clone(d + "/clean") if wk == "local" else base.clone()
        st = Stepper()
        raised = run_gc(w, st)
        after = listing(w)
        case0 = {"kind": "gc", "world": wk, "variant": variant, "class": "none", "k": 0}
        if raised is not None:
            res.violation("clean-gc-raised", f"fault-free garbage_collect raised {type(raised).__name__}: {raised}", case0)
            return res
        judge(res, w, before, R, P, None, case0, "fault-free run")
        missing = sorted(x for x in deletable if x in after)
        if missing:
            res.violation("clean-gc-left-orphans", f"fault-free collection left deletable files {missing}", case0)
        events = [e for e in st.events if e[1] == "before"]
        first_delete = next((n for n, ph, label, target in events if ("delete" in label or label.endswith("os.remove")) and not target.startswith("metadata/inflight")), 10**9)
        # ---- (a) a fault at every step
        if task["part"] in ("a", "all"):
            for idx, (k, ph, label, target) in enumerate(events):
                if idx % task["nshard"] != task["shard"]:
                    continue
                # local: a one-shot error, and a PERSISTENT one (the same call on the same file keeps failing, other calls work)
                for sticky in (False, True):
                    wi = base.clone(f"{d}/f{k}") if wk == "local" else base.clone()
                    sti = Stepper()
                    fired = []
                    sig = (label, target)

                    def h(n, phase, lab, tgt, info, k=k, sig=sig, sticky=sticky):
                        if phase != "before":
                            return
                        if (n == k and not fired) or (fired and sticky and (lab, tgt) == sig):
                            fired.append(n)  # S3: always persistent, so that the retry layer cannot mask it
                            if wk == "local":
                                raise OSError(5, "injected")
                            raise client_error("InternalError", "Op", 500)

                    sti.handler = h
                    again = {}
                    r = run_gc(wi, sti, again=again)
                    nl = c04.norm_label(label, target)
                    cls = _fault_class(label, target)
                    case = {"kind": "gc", "world": wk, "variant": variant, "class": cls, "k": k, "step": nl, "sticky": sticky}
                    res.case(key=f"{wk}|{variant}|a|{nl}|{sticky}", nontrivial=k < first_delete,
                             labels=["a:fault", f"world:{wk}", f"a:{cls}", "raised" if r else "returned"] + (["a:persistent"] if sticky else ["a:one-shot"]),
                             sample=case if k % 29 == 0 else None)
                    if fired and "second" in again:
                        # judged after BOTH runs: the aborted one and the fault-free one that followed on the same handle
                        res.labels["a:second-run-on-same-handle"] += 1
                        judge(res, wi, before, R, P, again["second"], dict(case, **{"class": cls + "+second-run"}),
                              f"{'persistent ' if sticky else ''}fault at step {k} [{nl}] aborted the collection; then a fault-free collection through the same handle")
                    elif fired:
                        judge(res, wi, before, R, P, r, case, f"{'persistent ' if sticky else ''}fault at step {k} [{nl}]")
                    if wk == "local":
                        import shutil

                        shutil.rmtree(wi.root, ignore_errors=True)
        # ---- (d) an existence probe that wrongly answers False
        if task["part"] in ("d", "all") and task["shard"] == 0:
            probe = {"n": 0, "seen": [0]}
            wi = base.clone(f"{d}/x0") if wk == "local" else base.clone()
            run_gc(wi, None, lying_exists=probe)
            total = probe["seen"][0]
            for n in range(1, total + 1):
                wi = base.clone(f"{d}/x{n}") if wk == "local" else base.clone()
                lie = {"n": n, "seen": [0]}
                r = run_gc(wi, None, lying_exists=lie)
                if "lied_about" not in lie:
                    continue
                tgt = str(lie["lied_about"])
                if tgt.strip("/").endswith("metadata.version-hint.text"):
                    # a pointer that looks absent is pointer LOSS: what recovery may then surface is C10's subject (and its recorded
                    # finding recovery-surfaces-orphan/crash), not a reachability input that 'cannot be trusted'
                    res.labels["d:pointer-probe(excluded, C10)"] += 1
                    continue
                cls = "marker" if "inflight" in tgt else ("manifest-plane" if "manifest" in tgt else ("metadata" if tgt.startswith("metadata") else "data"))
                case = {"kind": "gc", "world": wk, "variant": variant, "class": f"exists-false@{cls}", "k": n}
                res.case(key=f"{wk}|{variant}|d|{cls}|{n}", nontrivial=True, labels=["d:exists-answers-false", f"world:{wk}", "raised" if r else "returned"], sample=case if n % 7 == 0 else None)
                judge(res, wi, before, R, P, r, case, f"existence probe #{n} ({c04.norm_label('storage:exists', tgt)}) answered False although the object exists")
                if wk == "local":
                    import shutil

                    shutil.rmtree(wi.root, ignore_errors=True)
        # ---- (b) listings returning an escaping path
        if task["part"] in ("b", "all") and task["shard"] == 0:
            for pfx in ("metadata/inflight", "data", "metadata/manifests"):
                wi = base.clone(f"{d}/e{pfx.replace('/', '_')}") if wk == "local" else base.clone()
                r = run_gc(wi, None, escape_listing=pfx)
                case = {"kind": "gc", "world": wk, "variant": variant, "class": "escaping-listing", "prefix": pfx}
                res.case(key=f"{wk}|{variant}|b|{pfx}", nontrivial=True, labels=["b:escaping-listing", f"world:{wk}", "raised" if r else "returned"], sample=case)
                judge(res, wi, before, R, P, r, case, f"listing of {pfx} returned '../outside/evil.parquet'")
                if wk == "local" and pfx != "metadata/inflight":
                    wi = base.clone(f"{d}/f{pfx.replace('/', '_')}")
                    r = run_gc(wi, None, escape_listing=pfx, escape_as=os.path.basename(wi.root.rstrip("/")))
                    case = {"kind": "gc", "world": wk, "variant": variant, "class": "escaping-listing-mixed", "prefix": pfx}
                    res.case(key=f"{wk}|{variant}|b2|{pfx}", nontrivial=True, labels=["b:escaping-listing", "b:mixed-listing", f"world:{wk}", "raised" if r else "returned"], sample=case)
                    judge(res, wi, before, R, P, r, case, f"listing of {pfx} returned its entries after the first as '../<table dir>/...'")
        # ---- (c) corruption of reachable metadata-plane files
        if task["part"] in ("c", "all") and task["shard"] == 0:
            targets = [("metadata", "metadata/" + v["metadata_file"])]
            for s in v["snapshots"]:
                targets.append(("mlist", norm(s["manifest_list"])))
                targets += [("manifest", m) for m in s["manifests"]]
            seen = set()
            for cls, path in targets:
                if path in seen:
                    continue
                seen.add(path)
                orig = base.fs().get(path)
                n = len(orig)
                dmg = [("delete", None), ("truncate0", b""), ("truncate-half", orig[: n // 2]), ("truncate-1", orig[:-1]), ("truncate-magic", orig[:4]),
                       ("truncate-3q", orig[: 3 * n // 4]), ("truncate-9t", orig[: 9 * n // 10]), ("truncate-20", orig[: max(n - 20, 1)]),
                       ("random", bytes((i * 37 + 11) % 256 for i in range(n)))]
                if cls == "metadata":
                    # still JSON, but the section that lists the snapshots is gone: nothing can be decided from it
                    try:
                        doc = json.loads(orig.decode("utf-8"))
                        doc.pop("snapshots")
                        dmg.append(("key-removed-snapshots", json.dumps(doc).encode("utf-8")))
                    except Exception:
                        pass
                if cls in ("mlist", "manifest"):
                    # still well-formed Avro, but ONE entry carries a code this reader does not know (a newer / foreign writer, a flipped byte):
                    # the file is only partly interpretable, so nothing that hangs off that entry may be treated as unreachable
                    dmg += _avro_code_damages(cls, orig)
                for dname, payload in dmg:
                    if payload is not None and not dname.startswith(("key-removed", "code-")) and _parse_ok(cls, payload):
                        res.labels["c:still-parses(excluded)"] += 1
                        continue
                    wi = base.clone(f"{d}/c{len(seen)}_{dname}") if wk == "local" else base.clone()
                    _set(wi, path, payload)
                    again = {}
                    r = run_gc(wi, again=again)
                    if "second" in again:
                        # the damage persists; the same handle collects a second time after the aborted run
                        res.labels["c:second-run-on-same-handle"] += 1
                        r = again["second"]
                    case = {"kind": "gc", "world": wk, "variant": variant, "class": f"corrupt-{cls}-{dname}" + ("+second-run" if "second" in again else ""), "path_class": cls, "damage": dname}
                    res.case(key=f"{wk}|{variant}|c|{cls}|{dname}|{path in R}", nontrivial=True, labels=["c:corruption", f"world:{wk}", f"c:{cls}", "raised" if r else "returned"], sample=case if dname == "random" else None)
                    before_i = before - ({path} if payload is None else set())
                    judge(res, wi, before_i, R - {path}, P, r, case, f"{cls} file {path} damaged by {dname}")
                    if wk == "local":
                        import shutil

                        shutil.rmtree(wi.root, ignore_errors=True)
        try:
            with base.env():
                tx_live.rollback()
        except Exception:
            pass
    res.extra["exhaustive_over_step_sequence"] = True
    return res


def _fault_class(label, target):
    what = "marker" if "inflight" in target else ("manifest-plane" if "manifest" in target else ("metadata" if target.startswith("metadata") else ("data" if target.startswith("data") else "other")))
    op = label.split(":")[-1] if ":" in label else label
    if "list" in label:
        op = "list"
    return f"{op.replace('os.', '')}@{what}"


def plan(tier, seed):
    tasks = []
    variants = list(range(6))
    for wk in ("local", "s3cas"):
        for vv in variants:
            ns = 3 if wk == "local" else 2
            for s in range(ns):
                tasks.append({"world": wk, "variant": vv, "part": "all", "shard": s, "nshard": ns})
    return tasks


def run_task(task):
    return run_variant(task)


def replay(case):
    task = {"world": case["world"], "variant": case["variant"], "part": "all", "shard": 0, "nshard": 1}
    r = run_variant(task)
    seen, out = set(), []
    for v in r.violations:
        if v["bucket"] not in seen:
            seen.add(v["bucket"])
            out.append({"bucket": v["bucket"], "what": v["what"]})
    return out
