"""C10 - The version pointer is only a hint: losing or corrupting it never loses data."""
from __future__ import annotations

import os
import re

from hypothesis import strategies as st

from ..common import Result, scratch_dir
from ..hist import Engine, FIELDS, step_strategy
from ..hyp import campaign
from ..lib import age_tree
from ..reader import DirFS, HINT, META_RE, ReadError, read_view, reachable_files, rows_multiset, current_rows
from .. import tbl
from .c15 import _fix_steps

PROP = "C10"
LEVEL = "exploration"
RULE = ("Hypothesis: a history of 1-8 operations (append / delete_files / expire / multi-op transaction, interleaved with FAILED commits - pointer write "
        "raises - and CRASH leftovers - process death between metadata write and pointer flip - which both leave uncommitted vN metadata files), then the "
        "pointer is damaged by a byte grammar {deleted, empty, whitespace, random bytes, invalid UTF-8, digits (missing legacy / huge), legacy name, "
        "well-formed name of a missing file, of an OLDER committed version (stale), of an uncommitted orphan, current name with LF/CRLF/spaces, with path "
        "separators or '..'}, then - in a third of the cases - the same open/append once under a storage READ error (nth list_files/read_file/exists/"
        "get_modified_time call fails, one-shot or persistently; refusing is allowed), then an action {open while another handle's commit lands right after the opener's first metadata listing, load_table, create_table(other schema), append, scan, garbage_collect after ageing}. Oracle: the model knows "
        "the sequence of committed versions; the table in effect must have the original uuid and schema and the snapshot list and rows of the LATEST "
        "COMMITTED version; create_table must not re-initialise; an append must preserve all committed rows; GC must not delete files of the latest "
        "committed version. Non-trivial: the highest vN on disk is not the latest committed version, or the pointer names an existing but wrong version. "
        "distinct = hash of (history, damage, action). Object storage: 1-12 commits on the fake S3 with conditional writes, the pointer OBJECT damaged (deleted / empty / "
        "whitespace / bytes / digits / name of a missing file / trailing LF), then load_table / create_table / one or two appends: same table, all rows, writable again.")
ASSUMPTIONS = ["'committed' = a version the pointer named after a call that returned success (pointer history recorded by the harness)",
               "the pointer of a healthy table with trailing newline/CRLF/space is still the current pointer (parser strips whitespace)"]
REQUIRED_LABELS = {"quick": ["orphan-higher-than-committed", "damage:stale", "damage:deleted", "action:create_table", "versions>=10"], "thorough": ["orphan-higher-than-committed"]}

DAMAGES = ["deleted", "empty", "whitespace", "random", "invalid_utf8", "digits_missing", "digits_lower", "digits_huge", "legacy_name", "legacy_lower", "missing_file", "stale",
           "orphan", "current_lf", "current_crlf", "current_spaces", "path_sep", "dotdot", "long_garbage", "digits_unicode", "digits_5000", "name_5000", "digits_n", "name_n", "legacy_name_n"]
ACTIONS = ["load_table", "create_table", "append", "append_then_lose_pointer", "scan", "gc", "open_during_commit", "second_loss_same_handle"]


@st.composite
def case_strategy(draw):
    base = step_strategy(gc=False, clock_ticks="none", props_ops=False, open_txn=False)
    extra = st.one_of(st.just({"op": "failed_commit"}), st.just({"op": "crash_before_flip"}), st.just({"op": "append", "n": 1}))
    steps = [{"op": "append", "n": 1}] + draw(st.lists(st.one_of(base, extra, extra), min_size=0, max_size=7))
    if draw(st.integers(0, 24)) == 0:
        # long histories: two-digit version numbers (v9 -> v10 ordering), optionally followed by the usual mix
        steps = [{"op": "append", "n": 1} for _ in range(draw(st.integers(9, 13)))] + steps
    fault = None
    if draw(st.integers(0, 2)) == 0:
        # a storage READ error while the damaged table is being opened (one-shot or persisting for that call)
        fault = {"method": draw(st.sampled_from(FAULT_METHODS)), "nth": draw(st.integers(1, 4)), "sticky": draw(st.booleans())}
    return {"kind": "pointer", "steps": steps, "damage": draw(st.sampled_from(DAMAGES)), "action": draw(st.sampled_from(ACTIONS)),
            "rnd": draw(st.binary(min_size=1, max_size=12)), "stale_idx": draw(st.integers(0, 6)), "fault": fault,
            "ndig": draw(st.one_of(st.sampled_from(NDIG), st.integers(2, 4400)))}


# lengths of an all-digit version field: around the int64 width, the file-name limit (255 bytes incl. prefix/suffix), the path limit and the
# interpreter's integer-string conversion limit (4300)
NDIG = [19, 20, 40, 230, 241, 242, 250, 254, 255, 256, 300, 1000, 4000, 4096, 4299, 4300, 4301]
FAULT_METHODS = ["list_files", "list_files", "read_file", "exists", "get_modified_time"]


class _storage_fault:
    """The nth call of one LocalStorageBackend read method raises EIO (and every later one too if sticky)."""

    def __init__(self, spec):
        self.spec, self.calls, self.fired = spec, 0, 0

    def __enter__(self):
        from datashard.storage_backend import LocalStorageBackend as B

        self.cls, self.name = B, self.spec["method"]
        self.orig = getattr(B, self.name)
        me = self

        def wrapper(obj, *a, **k):
            me.calls += 1
            if me.calls == me.spec["nth"] or (me.spec["sticky"] and me.calls > me.spec["nth"]):
                me.fired += 1
                raise OSError(5, "injected I/O error")
            return me.orig(obj, *a, **k)

        setattr(B, self.name, wrapper)
        return self

    def __exit__(self, *exc):
        setattr(self.cls, self.name, self.orig)
        return False


def _version_of(name):
    m = META_RE.match(name or "")
    return int(m.group(1)) if m else None


def check_case(case):
    import datashard

    out = {"violations": [], "labels": [f"damage:{case['damage']}", f"action:{case['action']}"], "nontrivial": False}
    with scratch_dir("c10") as d:
        root = d + "/t"
        eng = Engine(root, props=())
        try:
            eng.run(case["steps"])
        finally:
            eng.close()
        committed = [v for v in eng.versions if v]
        L = committed[-1]
        fs = DirFS(root)
        want = read_view(fs, metadata_file=L)
        want_rows = current_rows(want)
        want_ids = [s["id"] for s in want["snapshots"]]
        on_disk = [os.path.basename(p) for p in fs.list("metadata") if META_RE.match(os.path.basename(p)) and os.path.dirname(p) == "metadata"]
        orphans = sorted(set(on_disk) - set(committed))
        failed = sum(1 for s in case["steps"] if s["op"] == "failed_commit")
        crashed = sum(1 for s in case["steps"] if s["op"] == "crash_before_flip")
        vL = _version_of(L)
        if vL is not None and vL >= 10:
            out["labels"].append("versions>=10")
        higher = [o for o in orphans if _version_of(o) >= vL]
        if higher:
            out["labels"].append("orphan-higher-than-committed")
        # a writer handle that is already open when the pointer gets damaged (used by the action open_during_commit)
        wt_early = None
        if case["action"] == "open_during_commit":
            try:
                wt_early = datashard.load_table(root)
            except Exception:
                wt_early = None
        # ---- damage
        dmg = case["damage"]
        hint = os.path.join(root, HINT)
        wrong_existing = False
        if dmg == "deleted":
            os.remove(hint)
        elif dmg == "empty":
            open(hint, "wb").close()
        elif dmg == "whitespace":
            open(hint, "wb").write(b" \n\t\r\n")
        elif dmg == "random":
            open(hint, "wb").write(case["rnd"])
        elif dmg == "invalid_utf8":
            open(hint, "wb").write(b"\xff\xfe" + case["rnd"])
        elif dmg == "digits_missing":
            open(hint, "wb").write(str(vL + 50).encode())
        elif dmg == "digits_lower":
            open(hint, "wb").write(str(max(vL - 2, 0)).encode())
        elif dmg == "legacy_lower":
            open(hint, "wb").write(f"v{max(vL - 1, 0)}.metadata.json".encode())
        elif dmg == "digits_huge":
            open(hint, "wb").write(b"9" * 40)
        elif dmg == "legacy_name":
            open(hint, "wb").write(f"v{vL}.metadata.json".encode())
        elif dmg == "missing_file":
            open(hint, "wb").write(f"v{vL + 3}-deadbeef.metadata.json".encode())
        elif dmg == "stale":
            older = [c for c in committed[:-1] if os.path.exists(os.path.join(root, "metadata", c))]
            if not older:
                out["labels"].append("damage-not-applicable")
                return out
            open(hint, "wb").write(older[case["stale_idx"] % len(older)].encode())
            wrong_existing = True
        elif dmg == "orphan":
            if not orphans:
                out["labels"].append("damage-not-applicable")
                return out
            open(hint, "wb").write(orphans[case["stale_idx"] % len(orphans)].encode())
            wrong_existing = True
        elif dmg == "current_lf":
            open(hint, "wb").write(L.encode() + b"\n")
        elif dmg == "current_crlf":
            open(hint, "wb").write(L.encode() + b"\r\n")
        elif dmg == "current_spaces":
            open(hint, "wb").write(b"  " + L.encode() + b" ")
        elif dmg == "path_sep":
            open(hint, "wb").write(b"metadata/" + L.encode())
        elif dmg == "dotdot":
            open(hint, "wb").write(b"../metadata/" + L.encode())
        elif dmg == "long_garbage":
            open(hint, "wb").write(case["rnd"] * 500)
        elif dmg == "digits_unicode":
            open(hint, "wb").write("\u00b2".encode("utf-8"))  # str.isdigit() is true for it, int() refuses it
        elif dmg == "digits_5000":
            open(hint, "wb").write(b"7" * 5000)  # beyond the interpreter's integer-string conversion limit
        elif dmg == "name_5000":
            open(hint, "wb").write(b"v" + b"7" * 5000 + b"-deadbeef.metadata.json")
        elif dmg == "digits_n":
            open(hint, "wb").write(b"3" * case.get("ndig", 300))
        elif dmg == "name_n":
            open(hint, "wb").write(b"v" + b"3" * case.get("ndig", 300) + b"-deadbeef.metadata.json")
        elif dmg == "legacy_name_n":
            open(hint, "wb").write(b"v" + b"3" * case.get("ndig", 300) + b".metadata.json")
        out["nontrivial"] = bool(higher) or wrong_existing

        # classification of the root cause if something goes wrong (for bucketing only)
        if dmg == "stale":
            cause = "existing-target-trusted/stale"
        elif dmg == "orphan":
            cause = "existing-target-trusted/orphan"
        elif higher:
            origin = getattr(eng, "orphan_origin", {})
            kinds = sorted({origin.get(o, "?") for o in higher})
            if all(_version_of(o) == vL for o in higher) and all(os.path.getmtime(os.path.join(root, "metadata", o)) < os.path.getmtime(os.path.join(root, "metadata", L)) for o in higher):
                # the leftover carries the SAME number as the latest committed version and is OLDER than it: the recovery scan has a rule
                # for that (the most recently written file of the highest number) - not the recorded 'indistinguishable' situation
                cause = "recovery-same-number-older-orphan/" + "+".join(kinds)
                out["labels"].append("orphan-same-number-as-committed")
            else:
                cause = "recovery-surfaces-orphan/" + "+".join(kinds)
        else:
            cause = "recovery/" + dmg

        ROOT_CAUSES = ("existing-target-trusted/stale", "existing-target-trusted/orphan", "recovery-surfaces-orphan/crash")

        def vio(sym, what):
            # the three recorded root causes show through several symptoms (wrong version, lost rows, lost follow-up commit ...): one bucket each
            bucket = cause if cause in ROOT_CAUSES else f"{cause}/{sym}"
            out["violations"].append((bucket, f"[{sym}] " + f"damage={dmg} action={case['action']}: {what} (committed={len(committed)} orphans={orphans} latest={L})"))

        # ---- action
        act = case["action"]
        other_schema = tbl.make_schema([{"id": 9, "name": "zzz", "type": "string", "required": False}], 7)
        faulted_row = None  # None: no append attempted under the fault; (row, acknowledged)
        if case.get("fault"):
            # phase A: the open (and, for the append actions, an append) with a storage read error. Refusing is fine;
            # whatever happened, the table in effect afterwards - read WITHOUT the fault - must still be the latest committed version
            with _storage_fault(case["fault"]) as sf:
                try:
                    tf = datashard.create_table(root, other_schema) if act == "create_table" else datashard.load_table(root)
                    if act in ("append", "append_then_lose_pointer"):
                        faulted_row = ({"k": -3, "s": "faulted"}, False)
                        tf.append_records([faulted_row[0]])
                        faulted_row = (faulted_row[0], True)
                    out["labels"].append("faulted-phase-returned")
                except Exception as e:  # noqa
                    out["labels"].append("faulted-phase-raised")
            out["labels"].append(f"fault:{case['fault']['method']}:{'fired' if sf.fired else 'not-reached'}")
            if act == "create_table":
                act = "load_table"
        during = None
        if act == "open_during_commit" and not case.get("fault"):
            # a reader opens the damaged table WHILE another handle commits: the commit lands right after the reader's first
            # listing of metadata/ (forced from a one-shot wrapper around the storage listing, not timed). Recovery is a
            # read-only affair: the acknowledged commit must survive it.
            from datashard.storage_backend import LocalStorageBackend as _B

            wt = wt_early
            if wt is None:
                out["labels"].append("writer-handle-unavailable")
                return out
            orig_list = _B.list_files
            fired = [False]

            def listing(obj, prefix):
                res_ = orig_list(obj, prefix)
                if not fired[0] and str(prefix).strip("/") == "metadata":
                    fired[0] = True
                    faulted = ({"k": -5, "s": "during"}, False)
                    try:
                        wt.append_records([faulted[0]])
                        faulted = (faulted[0], True)
                    except Exception:
                        pass
                    during_box.append(faulted)
                return res_

            during_box = []
            _B.list_files = listing
            try:
                try:
                    t = datashard.load_table(root)
                except Exception as e:  # noqa
                    vio("open-raises", f"opening raised {type(e).__name__}: {str(e)[:120]}")
                    return out
            finally:
                _B.list_files = orig_list
            if during_box:
                out["labels"].append("commit-landed-during-open")
                faulted_row = during_box[0]
            during = True
            act = "load_table"
        try:
            if during:
                pass
            elif act == "create_table":
                t = datashard.create_table(root, other_schema)
            else:
                t = datashard.load_table(root)
        except Exception as e:  # noqa
            vio("open-raises", f"opening raised {type(e).__name__}: {str(e)[:120]}")
            return out
        try:
            md = t.metadata_manager.refresh()
            uuid_now = md.table_uuid
            ids_now = [s.snapshot_id for s in md.snapshots]
            fields_now = [f["name"] for s in md.schemas if s.schema_id == md.current_schema_id for f in s.fields]
        except Exception as e:  # noqa
            vio("refresh-raises", f"{type(e).__name__}: {str(e)[:120]}")
            return out
        if uuid_now != want["uuid"]:
            vio("reinitialised", f"table uuid changed {want['uuid']} -> {uuid_now}")
            return out
        if fields_now != [f["name"] for f in FIELDS]:
            vio("schema-replaced", f"schema fields now {fields_now}")
            return out
        if faulted_row is not None and len(ids_now) == len(want_ids) + 1 and ids_now[:-1] == want_ids:
            # the append made under the fault landed (acknowledged, or reported failed after its commit point)
            want_ids = ids_now
            want_rows = want_rows + rows_multiset([faulted_row[0]])
        elif faulted_row is not None and faulted_row[1] and ids_now == want_ids:
            vio("acknowledged-append-under-fault-lost", "append_records returned under the fault but its snapshot is not in the table")
            return out
        if ids_now != want_ids:
            vio("wrong-version", f"snapshots in effect {ids_now} != latest committed {want_ids}")
            return out
        try:
            got = rows_multiset(t.scan())
        except Exception as e:  # noqa
            vio("scan-raises", f"{type(e).__name__}: {str(e)[:120]}")
            return out
        if got != want_rows:
            vio("rows-differ", f"scan returned {sum(got.values())} rows, latest committed version has {sum(want_rows.values())}")
            return out
        if act == "append":
            try:
                t.append_records([{"k": -1, "s": "after"}])
                got = rows_multiset(datashard.load_table(root).scan())
            except Exception as e:  # noqa
                vio("append-raises", f"{type(e).__name__}: {str(e)[:120]}")
                return out
            if got != want_rows + rows_multiset([{"k": -1, "s": "after"}]):
                vio("append-lost-rows", f"after a follow-up append the table has {sum(got.values())} rows, expected {sum(want_rows.values()) + 1}")
                return out
            # the pointer must now name a version descending from L
            v2 = read_view(DirFS(root))
            if [s["id"] for s in v2["snapshots"]][: len(want_ids)] != want_ids:
                vio("append-forked", "the follow-up append did not build on the latest committed version")
        if act == "append_then_lose_pointer":
            # a commit made after recovery must itself survive a second loss of the pointer
            try:
                t.append_records([{"k": -2, "s": "after"}])
                os.remove(hint)
                got = rows_multiset(datashard.load_table(root).scan())
            except Exception as e:  # noqa
                vio("append-then-recover-raises", f"{type(e).__name__}: {str(e)[:120]}")
                return out
            if got != want_rows + rows_multiset([{"k": -2, "s": "after"}]):
                vio("acknowledged-commit-lost-after-second-pointer-loss", f"after append + pointer loss the table has {sum(got.values())} rows, expected {sum(want_rows.values()) + 1}")
                return out
        if act == "second_loss_same_handle":
            # the handle that has just recovered stays open; ANOTHER handle commits; the pointer is lost again; the long-lived handle reads
            # and commits: nothing it learnt during the first recovery may stand in for the table's present state
            try:
                datashard.load_table(root).append_records([{"k": -6, "s": "other"}])
                if case["stale_idx"] % 2 == 0:
                    os.remove(hint)
                else:
                    open(hint, "wb").write(b"not a pointer " + case["rnd"])
                got = rows_multiset(t.scan())
            except Exception as e:  # noqa
                vio("second-loss-raises", f"{type(e).__name__}: {str(e)[:120]}")
                return out
            want2 = want_rows + rows_multiset([{"k": -6, "s": "other"}])
            if got != want2:
                vio("stale-after-second-loss", f"after another handle's commit and a second pointer loss the long-lived handle reads {sum(got.values())} rows, expected {sum(want2.values())}")
                return out
            try:
                t.append_records([{"k": -7, "s": "mine"}])
                got = rows_multiset(datashard.load_table(root).scan())
            except Exception as e:  # noqa
                vio("second-loss-append-raises", f"{type(e).__name__}: {str(e)[:120]}")
                return out
            if got != want2 + rows_multiset([{"k": -7, "s": "mine"}]):
                vio("acknowledged-commit-lost-after-second-pointer-loss", f"after the long-lived handle's append the table has {sum(got.values())} rows, expected {sum(want2.values()) + 1}")
                return out
        if act == "gc":
            age_tree(root, 90000, only=lambda rel: rel.startswith("data") or rel.startswith("metadata/manifests"))
            need = reachable_files(want)
            try:
                t.garbage_collect(grace_period_ms=0)
            except Exception:
                pass
            missing = [p for p in need if not os.path.exists(os.path.join(root, p))]
            if missing:
                vio("gc-deleted-committed", f"GC deleted {missing[:2]} of the latest committed version")
    return out


# ---------------- the same on object storage (conditional writes): the pointer is an S3 object ----------------
S3_DAMAGES = ["deleted", "empty", "whitespace", "random", "invalid_utf8", "digits_missing", "digits_huge", "missing_file", "current_lf", "long_garbage", "digits_unicode", "digits_5000"]


@st.composite
def s3_case(draw):
    return {"kind": "s3ptr", "ncommits": draw(st.integers(1, 12)), "damage": draw(st.sampled_from(S3_DAMAGES)), "rnd": draw(st.binary(min_size=1, max_size=12)),
            "action": draw(st.sampled_from(["load_table", "create_table", "append", "append_twice"]))}


def check_s3(case):
    """Committed history (no leftovers) on the fake S3 with conditional writes, pointer object damaged, then open / append:
    same uuid and schema, every committed row, and the table WRITABLE again (a commit after the damage is acknowledged and kept)."""
    import datashard
    from ..world import S3World

    out = {"violations": [], "labels": ["s3-pointer", f"damage:{case['damage']}", f"action:{case['action']}"], "nontrivial": True}
    w = S3World(conditional=True)
    with w.env():
        t = w.create(tbl.make_schema(FIELDS))
        rows = []
        for i in range(case["ncommits"]):
            r = {"k": i, "s": f"c{i}"}
            t.append_records([r])
            rows.append(r)
        fs = w.fs()
        want = read_view(fs)
        L = want["metadata_file"]
        vL = _version_of(L)
        key = w.key_prefix + "/" + HINT
        dmg = case["damage"]
        payload = {"empty": b"", "whitespace": b" \n\t\r\n", "random": case["rnd"], "invalid_utf8": b"\xff\xfe" + case["rnd"], "digits_missing": str(vL + 50).encode(),
                   "digits_huge": b"9" * 40, "missing_file": f"v{vL + 3}-deadbeef.metadata.json".encode(), "current_lf": L.encode() + b"\n",
                   "long_garbage": case["rnd"] * 500, "digits_unicode": "\u00b2".encode("utf-8"), "digits_5000": b"7" * 5000}.get(dmg)
        if dmg == "deleted":
            w.fake.objects.pop(key, None)
        else:
            w.fake.raw_put(key, payload)

        def vio(sym, what):
            out["violations"].append((f"s3-recovery/{dmg}/{sym}", f"S3 (conditional writes), {case['ncommits']} commits, pointer {dmg}, action {case['action']}: {what}"))

        other_schema = tbl.make_schema([{"id": 9, "name": "zzz", "type": "string", "required": False}], 7)
        try:
            t2 = datashard.create_table(w.location(), other_schema) if case["action"] == "create_table" else datashard.load_table(w.location())
            md = t2.metadata_manager.refresh()
        except Exception as e:  # noqa
            vio("open-raises", f"{type(e).__name__}: {str(e)[:120]}")
            return out
        if md is None or md.table_uuid != want["uuid"]:
            vio("reinitialised", f"uuid {want['uuid']} -> {getattr(md, 'table_uuid', None)}")
            return out
        expect = list(rows)
        try:
            if rows_multiset(t2.scan()) != rows_multiset(expect):
                vio("rows-differ", "scan after recovery does not return the committed rows")
                return out
            if case["action"] in ("append", "append_twice"):
                for j in range(2 if case["action"] == "append_twice" else 1):
                    r = {"k": -1 - j, "s": "after"}
                    t2.append_records([r])
                    expect.append(r)
                got = rows_multiset(datashard.load_table(w.location()).scan())
                if got != rows_multiset(expect):
                    vio("append-lost-rows", f"after the follow-up append(s) the table has {sum(got.values())} rows, expected {len(expect)}")
        except Exception as e:  # noqa
            vio(f"not-usable-after-recovery/{type(e).__name__}", f"{type(e).__name__}: {str(e)[:140]}")
    return out


def plan(tier, seed):
    n = 180 if tier == "quick" else 3000
    tasks = [{"n": n, "seed": seed * 1000 + s, "tier": tier} for s in range(16)]
    tasks += [{"kind": "s3ptr", "n": 40 if tier == "quick" else 600, "seed": seed * 1000 + 300 + s, "tier": tier} for s in range(4 if tier == "quick" else 8)]
    return tasks


def run_task(task):
    res = Result()
    if task.get("kind") == "s3ptr":
        campaign(s3_case(), check_s3, task["n"], task["seed"], res, PROP, shrink=False)
        return res
    campaign(case_strategy(), check_case, task["n"], task["seed"], res, PROP, shrink=task["tier"] == "thorough")
    return res


def replay(case):
    if case.get("kind") == "s3ptr":
        o = check_s3(case)
        return [{"bucket": b, "what": w} for b, w in o["violations"]]
    _fix_steps(case["steps"])
    o = check_case(case)
    return [{"bucket": b, "what": w} for b, w in o["violations"]]
