"""Hypothesis campaign helper: collect-then-shrink.

Hypothesis stops at the first failing example.  To enumerate root causes instead, the property
function does not raise: it returns a list of (bucket, what) violations for the case, which are
collected.  Afterwards, for each bucket that is NOT a listed known finding, a second (shrinking)
campaign is run whose test fails only for that bucket, so that the replay file holds a minimal case.
"""
from __future__ import annotations

import time

import hypothesis
from hypothesis import HealthCheck, Phase, given, settings

from .common import Result, SetupRejected, chash, jsonable, load_known


def _settings(n, shrink=False):
    phases = [Phase.generate] + ([Phase.shrink] if shrink else [])
    return settings(
        max_examples=n, database=None, deadline=None, derandomize=False, phases=phases,
        report_multiple_bugs=False, suppress_health_check=list(HealthCheck), print_blob=False,
        verbosity=hypothesis.Verbosity.quiet,
    )


class _Found(Exception):
    pass


def campaign(strategy, check, n, seed, result: Result, prop: str, to_case=None, shrink=True, shrink_budget_s=60):
    """Run `check(value) -> dict(violations=[(bucket, what)], key=..., nontrivial=bool, labels=[...])`
    over n generated values."""
    known = {f["bucket"] for f in load_known().get("findings", []) if f.get("property") == prop}
    to_case = to_case or (lambda v: v)
    seen_new = {}

    @hypothesis.seed(seed)
    @_settings(n)
    @given(strategy)
    def run(value):
        try:
            out = check(value)
        except SetupRejected:
            out = {"violations": [], "labels": ["setup-rejected"], "nontrivial": False}
        case = to_case(value)
        result.case(key=out.get("key", None) or chash(jsonable(case)), nontrivial=out.get("nontrivial", False),
                    labels=out.get("labels", ()), sample=case if out.get("nontrivial") else None)
        for bucket, what in out.get("violations", []):
            if bucket in known:
                result.excluded[bucket] += 1
                result.violation(bucket, what, case)
            else:
                if bucket not in seen_new:
                    seen_new[bucket] = (what, case)

    run()

    for bucket, (what, case) in seen_new.items():
        best = [what, case]
        if shrink:
            t0 = time.time()

            @hypothesis.seed(seed)
            @_settings(n, shrink=True)
            @given(strategy)
            def shr(value):
                if time.time() - t0 > shrink_budget_s:
                    return
                try:
                    out = check(value)
                except SetupRejected:
                    return
                for b, w in out.get("violations", []):
                    if b == bucket:
                        best[0], best[1] = w, to_case(value)
                        raise _Found()

            try:
                shr()
            except _Found:
                pass
            except Exception:
                pass
        result.violation(bucket, best[0], best[1])
    return result
