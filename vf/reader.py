"""Independent reader of a DataShard table: no datashard import.

pointer file -> metadata JSON (json) -> manifest list / manifests (fastavro, or the legacy JSON
shape) -> parquet (pyarrow.parquet on bytes).  All oracles that say "content of a snapshot" mean
rows read this way.
"""
from __future__ import annotations

import collections
import io
import json
import os
import re

import fastavro
import pyarrow.parquet as pq

HINT = "metadata.version-hint.text"
META_RE = re.compile(r"^v(\d+)(?:-[0-9a-f]{8})?\.metadata\.json$")


class ReadError(Exception):
    pass


class DirFS:
    """A table directory on the local file system."""

    def __init__(self, root):
        self.root = root

    def get(self, rel):
        p = os.path.join(self.root, rel.lstrip("/"))
        try:
            with open(p, "rb") as f:
                return f.read()
        except (FileNotFoundError, NotADirectoryError, IsADirectoryError):
            raise KeyError(rel)

    def exists(self, rel):
        return os.path.isfile(os.path.join(self.root, rel.lstrip("/")))

    def list(self, prefix=""):
        out = []
        base = os.path.join(self.root, prefix)
        for r, _d, fs in os.walk(base):
            for f in fs:
                out.append(os.path.relpath(os.path.join(r, f), self.root))
        return sorted(out)


class MapFS:
    """A dict of key -> bytes (e.g. the object map of the fake S3) under a key prefix."""

    def __init__(self, objects, prefix=""):
        self.objects = objects
        self.prefix = prefix.strip("/")

    def _k(self, rel):
        rel = rel.lstrip("/")
        return f"{self.prefix}/{rel}" if self.prefix else rel

    def get(self, rel):
        o = self.objects.get(self._k(rel))
        if o is None:
            raise KeyError(rel)
        return o if isinstance(o, (bytes, bytearray)) else o["body"]

    def exists(self, rel):
        return self._k(rel) in self.objects

    def list(self, prefix=""):
        p = self._k(prefix) if prefix else (self.prefix + "/" if self.prefix else "")
        cut = len(self.prefix) + 1 if self.prefix else 0
        return sorted(k[cut:] for k in self.objects if k.startswith(p))


def canon(v):
    """Canonical, hashable form of a cell value (NaN == NaN, bytes/str distinct, -0.0 != 0.0 kept)."""
    import datetime as dt
    import math

    if v is None:
        return ("0", 0)
    if isinstance(v, bool):
        return ("b", v)
    if isinstance(v, int):
        return ("i", v)
    if isinstance(v, float):
        if math.isnan(v):
            return ("f", "nan")
        return ("f", v.hex())
    if isinstance(v, str):
        return ("s", v)
    if isinstance(v, (bytes, bytearray)):
        return ("y", bytes(v).hex())
    if isinstance(v, dt.datetime):
        return ("ts", v.isoformat())
    if isinstance(v, dt.date):
        return ("d", v.isoformat())
    if isinstance(v, dt.time):
        return ("t", v.isoformat())
    return ("?", repr(v))


def canon_row(row: dict):
    return tuple(sorted((k, canon(v)) for k, v in row.items()))


def rows_multiset(rows):
    return collections.Counter(canon_row(r) for r in rows)


def norm(p: str) -> str:
    return p.lstrip("/")


def parse_pointer(raw: bytes):
    try:
        t = raw.decode("utf-8").strip()
    except UnicodeDecodeError:
        return None
    return t or None


def read_avro_or_json(data: bytes, json_key: str):
    try:
        return list(fastavro.reader(io.BytesIO(data))), "avro"
    except Exception:
        pass
    try:
        d = json.loads(data.decode("utf-8"))
        if isinstance(d, dict) and isinstance(d.get(json_key, []), list):
            return d.get(json_key, []), "json"
    except Exception:
        pass
    raise ReadError("neither avro nor legacy json")


def decode_bound(raw):
    import datetime as dt

    if not isinstance(raw, str):
        return raw
    try:
        p = json.loads(raw)
    except Exception:
        return ("legacy", raw)
    if not (isinstance(p, dict) and "t" in p and "v" in p):
        return ("legacy", raw)
    t, v = p["t"], p["v"]
    try:
        return _decode_tagged(t, v)
    except Exception:
        # an encoding this reader does not know: not a violation in itself (the format is internal); callers fall back
        # on what the library's own decoder makes of it
        return Undecoded(raw)


class Undecoded:
    def __init__(self, raw):
        self.raw = raw

    def __repr__(self):
        return f"Undecoded({self.raw!r})"


def _decode_tagged(t, v):
    import datetime as dt

    if t == "bool":
        return bool(v)
    if t == "int":
        return int(v)
    if t == "float":
        return float(v)
    if t == "ts":
        return dt.datetime.fromisoformat(v)
    if t == "date":
        return dt.date.fromisoformat(v)
    if t == "time":
        return dt.time.fromisoformat(v)
    return str(v)


def read_manifest_entries(fs, path):
    try:
        data = fs.get(norm(path))
    except KeyError:
        raise ReadError(f"missing manifest {path}")
    recs, kind = read_avro_or_json(data, "files")
    out = []
    for r in recs:
        if kind == "avro":
            df = r["data_file"]
            seq = r.get("file_sequence_number")
            if seq is None:
                seq = r.get("sequence_number")
            out.append({
                "path": df["file_path"], "status": r["status"], "added_snapshot": r.get("snapshot_id"),
                "seq": seq, "record_count": df["record_count"], "size": df["file_size_in_bytes"],
                "lower": {int(k): decode_bound(v) for k, v in (df.get("lower_bounds") or {}).items()},
                "upper": {int(k): decode_bound(v) for k, v in (df.get("upper_bounds") or {}).items()},
                "checksum": df.get("checksum"),
            })
        else:
            out.append({
                "path": r["file_path"], "status": None, "added_snapshot": r.get("added_snapshot_id"),
                "seq": r.get("sequence_number"), "record_count": r.get("record_count"), "size": r.get("file_size_in_bytes"),
                "lower": r.get("lower_bounds") or {}, "upper": r.get("upper_bounds") or {},
                "checksum": r.get("checksum"),
            })
    return out


def read_manifest_list(fs, path):
    try:
        data = fs.get(norm(path))
    except KeyError:
        raise ReadError(f"missing manifest list {path}")
    recs, _kind = read_avro_or_json(data, "manifests")
    return [r["manifest_path"] for r in recs]


def read_parquet_rows(fs, path, verify=None):
    import hashlib

    try:
        data = fs.get(norm(path))
    except KeyError:
        raise ReadError(f"missing data file {path}")
    if verify is not None and hashlib.sha256(data).hexdigest() != verify:
        raise ReadError(f"checksum mismatch {path}")
    try:
        return pq.read_table(io.BytesIO(data)).to_pylist()
    except Exception as e:
        raise ReadError(f"unreadable parquet {path}: {e}")


def read_snapshot(fs, snap: dict, rows=True, verify=True):
    """Resolve one snapshot dict from the metadata JSON into manifests / entries / files / rows."""
    out = {
        "id": snap["snapshot_id"], "parent": snap.get("parent_snapshot_id"), "seq": snap.get("sequence_number"),
        "ts": snap["timestamp_ms"], "manifest_list": snap["manifest_list"], "operation": snap.get("operation"),
    }
    manifests = read_manifest_list(fs, snap["manifest_list"])
    entries = []
    seen = set()
    for m in manifests:
        for e in read_manifest_entries(fs, m):
            if norm(e["path"]) in seen:
                continue
            seen.add(norm(e["path"]))
            entries.append(e)
    out["manifests"] = [norm(m) for m in manifests]
    out["entries"] = entries
    out["files"] = sorted(norm(e["path"]) for e in entries)
    if rows:
        ms = collections.Counter()
        per_file = {}
        for e in entries:
            rws = read_parquet_rows(fs, e["path"], e["checksum"] if verify else None)
            per_file[norm(e["path"])] = rws
            ms.update(canon_row(r) for r in rws)
        out["rows"] = ms
        out["rows_by_file"] = per_file
    return out


def read_metadata(fs, metadata_file):
    try:
        raw = fs.get("metadata/" + metadata_file)
    except KeyError:
        raise ReadError(f"missing metadata file {metadata_file}")
    try:
        return json.loads(raw.decode("utf-8"))
    except Exception as e:
        raise ReadError(f"unparseable metadata {metadata_file}: {e}")


def current_metadata_file(fs):
    try:
        raw = fs.get(HINT)
    except KeyError:
        return None
    return parse_pointer(raw)


def read_view(fs, metadata_file=None, rows=True, verify=True):
    """Full independent view of the table version named by the pointer (or by metadata_file)."""
    if metadata_file is None:
        metadata_file = current_metadata_file(fs)
        if metadata_file is None:
            raise ReadError("no pointer")
        if metadata_file.isdigit():
            metadata_file = f"v{metadata_file}.metadata.json"
    md = read_metadata(fs, metadata_file)
    view = {
        "metadata_file": metadata_file,
        "uuid": md["table_uuid"],
        "current_id": md["current_snapshot_id"],
        "last_seq": md["last_sequence_number"],
        "last_updated_ms": md["last_updated_ms"],
        "schemas": md["schemas"],
        "current_schema_id": md["current_schema_id"],
        "properties": md["properties"],
        "snapshot_log": md["snapshot_log"],
        "metadata_log": md["metadata_log"],
        "raw": md,
        "snapshots": [read_snapshot(fs, s, rows=rows, verify=verify) for s in md["snapshots"]],
    }
    return view


def current_snapshot(view):
    cid = view["current_id"]
    if cid is None or cid == -1:
        return None
    for s in view["snapshots"]:
        if s["id"] == cid:
            return s
    raise ReadError(f"current snapshot {cid} not among snapshots")


def current_rows(view):
    s = current_snapshot(view)
    return collections.Counter() if s is None else s["rows"]


def reachable_files(view):
    """Every manifest list, manifest and data file of every retained snapshot (table-relative)."""
    r = set()
    for s in view["snapshots"]:
        r.add(norm(s["manifest_list"]))
        r.update(s["manifests"])
        r.update(s["files"])
    return r


def view_digest(view):
    """Comparable summary of a table state: snapshot ids, per-snapshot file sets and rows, current id."""
    return {
        "uuid": view["uuid"],
        "current": view["current_id"],
        "snaps": [(s["id"], tuple(s["files"]), tuple(sorted(s["rows"].items()))) for s in view["snapshots"]],
    }
