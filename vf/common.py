"""Shared runner plumbing: repo import, scratch dirs, evidence, known findings, parallel map.

Every check is `./check <ID> --tier quick|thorough` (or `--replay file`).  A property module exports

    PROP, LEVEL, RULE, ASSUMPTIONS
    plan(tier, seed)      -> list of picklable task dicts
    run_task(task)        -> result dict (see Result)
    replay(case)          -> list of violation dicts (empty = holds)

Exit protocol: 0 held (maybe KNOWN-FINDING lines), 1 VIOLATION line, 2 harness error.
"""
from __future__ import annotations

import collections
import contextlib
import hashlib
import json
import logging
import os
import shutil
import sys
import tempfile
import time
import traceback

VERIF = os.path.dirname(os.path.dirname(os.path.abspath(__file__)))
REPO = os.environ.get("VF_REPO", "/repo")
REPO_SRC = os.path.join(REPO, "src")
NPROC = int(os.environ.get("VF_NPROC", "16"))


def _cap_sleep() -> None:
    """Retry back-off and lock polling sleep in REAL time (Transaction.commit: up to 50 retries x <=3 s). No property here
    depends on how long a sleep lasts, but a change that makes every commit retry would turn a check into hours of
    sleeping: inside check processes a sleep lasts at most 2 ms (child processes of the stress tests are not affected)."""
    import time as _t

    if getattr(_t, "_vf_capped", False):
        return
    real = _t.sleep

    def capped(seconds):
        real(min(max(float(seconds), 0.0), 0.002))

    _t.sleep = capped
    _t._vf_capped = True
    _t._vf_real_sleep = real


def setup_repo_import() -> None:
    """Make `import datashard` resolve to the CURRENT working tree of /repo."""
    if REPO_SRC in sys.path:
        sys.path.remove(REPO_SRC)
    sys.path.insert(0, REPO_SRC)
    _cap_sleep()
    import datashard  # noqa

    f = os.path.realpath(datashard.__file__)
    if not f.startswith(os.path.realpath(REPO_SRC) + os.sep):
        raise RuntimeError(f"datashard imported from {f}, expected under {REPO_SRC}")
    # the library logs warnings/errors for every injected fault; keep the check output readable
    logging.disable(logging.CRITICAL)


def scratch_base() -> str:
    for cand in (os.environ.get("VF_SCRATCH"), "/dev/shm", os.environ.get("TMPDIR"), "/tmp"):
        if cand and os.path.isdir(cand) and os.access(cand, os.W_OK):
            return cand
    return tempfile.gettempdir()


@contextlib.contextmanager
def scratch_dir(prefix: str = "vf"):
    d = tempfile.mkdtemp(prefix=prefix + ".", dir=scratch_base())
    try:
        yield d
    finally:
        shutil.rmtree(d, ignore_errors=True)


def chash(obj) -> str:
    return hashlib.sha1(json.dumps(obj, sort_keys=True, default=repr).encode()).hexdigest()[:16]


def jsonable(o):
    """Best-effort conversion of a generated case to plain JSON (for samples / replay files)."""
    import datetime as _dt
    import math

    if isinstance(o, dict):
        return {str(k): jsonable(v) for k, v in o.items()}
    if isinstance(o, (list, tuple, set, frozenset)):
        return [jsonable(v) for v in o]
    if isinstance(o, float):
        if math.isnan(o):
            return {"$f": "nan"}
        if math.isinf(o):
            return {"$f": "inf" if o > 0 else "-inf"}
        return o
    if isinstance(o, bytes):
        return {"$b": o.hex()}
    if isinstance(o, _dt.datetime):
        return {"$ts": o.isoformat()}
    if isinstance(o, _dt.date):
        return {"$d": o.isoformat()}
    if isinstance(o, _dt.time):
        return {"$t": o.isoformat()}
    if isinstance(o, (str, int, bool)) or o is None:
        return o
    import decimal

    if isinstance(o, decimal.Decimal):
        return {"$dec": str(o)}
    return repr(o)


def unjson(o):
    import datetime as _dt

    if isinstance(o, dict):
        if len(o) == 1:
            (k, v), = o.items()
            if k == "$f":
                return float(v)
            if k == "$b":
                return bytes.fromhex(v)
            if k == "$dec":
                import decimal

                return decimal.Decimal(v)
            if k == "$ts":
                return _dt.datetime.fromisoformat(v)
            if k == "$d":
                return _dt.date.fromisoformat(v)
            if k == "$t":
                return _dt.time.fromisoformat(v)
        return {k: unjson(v) for k, v in o.items()}
    if isinstance(o, list):
        return [unjson(v) for v in o]
    return o


class Result:
    """Accumulates what one task (or the whole run) explored."""

    def __init__(self):
        self.evaluations = 0
        self.nontrivial = set()
        self.labels = collections.Counter()
        self.samples = []
        self.violations = []  # dicts: bucket, what, case
        self.excluded = collections.Counter()
        self.extra = {}
        self.inconclusive = []

    def case(self, key=None, nontrivial=False, labels=(), sample=None):
        self.evaluations += 1
        if nontrivial and key is not None:
            self.nontrivial.add(key if isinstance(key, str) else chash(key))
        for lab in labels:
            self.labels[lab] += 1
        if sample is not None and len(self.samples) < 4:
            self.samples.append(jsonable(sample))

    def violation(self, bucket: str, what: str, case) -> None:
        if len(self.violations) < 200:
            self.violations.append({"bucket": bucket, "what": what, "case": jsonable(case)})

    def to_dict(self):
        return {
            "evaluations": self.evaluations,
            "nontrivial": sorted(self.nontrivial),
            "labels": dict(self.labels),
            "samples": self.samples,
            "violations": self.violations,
            "excluded": dict(self.excluded),
            "extra": self.extra,
            "inconclusive": self.inconclusive,
        }

    def merge_dict(self, d):
        self.evaluations += d["evaluations"]
        self.nontrivial.update(d["nontrivial"])
        self.labels.update(d["labels"])
        for s in d["samples"]:
            if len(self.samples) < 8:
                self.samples.append(s)
        self.violations.extend(d["violations"])
        self.excluded.update(d["excluded"])
        for k, v in d.get("extra", {}).items():
            if isinstance(v, (int, float)) and not isinstance(v, bool):
                self.extra[k] = self.extra.get(k, 0) + v
            elif isinstance(v, bool):
                self.extra[k] = self.extra.get(k, True) and v
            else:
                self.extra.setdefault(k, v)
        self.inconclusive.extend(d.get("inconclusive", []))


def load_known():
    p = os.path.join(VERIF, "known_findings.json")
    if not os.path.exists(p):
        return {"findings": [], "fixed": []}
    with open(p) as f:
        return json.load(f)


class SetupRejected(Exception):
    """The library refused (raised on) a set-up step of a case whose property is about something else - e.g. the append
    that builds the table a filter check then reads.  Rejecting is not a violation of that property: the case is counted
    as trivial under the label `setup-rejected` (a check with too few non-trivial cases left exits 2, never VIOLATION)."""


def _worker(args):
    modname, task = args
    try:
        os.environ.setdefault("PYTHONHASHSEED", "0")
        setup_repo_import()
        import importlib

        mod = importlib.import_module(modname)
        try:
            r = mod.run_task(task)
        except SetupRejected as e:
            r = Result()
            r.case(key="setup-rejected:" + repr(task)[:200], nontrivial=False, labels=["setup-rejected"])
            r.extra["setup_rejected"] = repr(e)[:300]
        return r.to_dict() if isinstance(r, Result) else r
    except BaseException:  # harness error, reported to the parent
        return {"harness_error": traceback.format_exc(), "task": repr(task)[:500]}


def run_tasks(modname, tasks):
    import multiprocessing as mp

    if not tasks:
        return []
    n = min(NPROC, len(tasks))
    if n <= 1 or os.environ.get("VF_SERIAL"):
        return [_worker((modname, t)) for t in tasks]
    ctx = mp.get_context("spawn")
    out = []
    with ctx.Pool(n, maxtasksperchild=None) as pool:
        it = pool.imap_unordered(_worker, [(modname, t) for t in tasks], chunksize=1)
        pids = [p.pid for p in pool._pool]
        last_cpu, last_progress = _cpu_of(pids), time.time()
        while len(out) < len(tasks):
            try:
                out.append(it.next(timeout=20))
                last_progress = time.time()
                continue
            except mp.TimeoutError:
                pass
            except StopIteration:
                break
            cpu = _cpu_of(pids)
            if cpu > last_cpu + 0.5:
                last_cpu, last_progress = cpu, time.time()
            elif time.time() - last_progress > STALL_S:
                # no result and no CPU time spent by any worker (or its children) for STALL_S seconds: a worker hangs (observed once:
                # a pyarrow dataset scan waiting forever on an Arrow future). A budget/time problem is INCONCLUSIVE, never a violation.
                r = Result()
                r.inconclusive.append(f"{len(tasks) - len(out)} of {len(tasks)} task(s) abandoned: no result and no CPU progress in any worker for {STALL_S}s (hung worker)")
                out.append(r.to_dict())
                pool.terminate()
                break
    return out


STALL_S = int(os.environ.get("VF_STALL_S", "240"))


def _cpu_of(pids):
    """CPU seconds (user+system) consumed so far by these processes and all their descendants."""
    want, ppid, cpu = set(pids), {}, {}
    try:
        for d in os.listdir("/proc"):
            if not d.isdigit():
                continue
            try:
                with open(f"/proc/{d}/stat") as f:
                    rest = f.read().rsplit(")", 1)[1].split()
                ppid[int(d)] = int(rest[1])
                cpu[int(d)] = (int(rest[11]) + int(rest[12])) / float(os.sysconf("SC_CLK_TCK"))
            except (OSError, IndexError, ValueError):
                continue
    except OSError:
        return 0.0
    total = 0.0
    for p in cpu:
        q, hops = p, 0
        while q in ppid and hops < 50:
            if q in want:
                total += cpu[p]
                break
            q, hops = ppid[q], hops + 1
    return total


def main(argv=None):
    import argparse
    import importlib

    ap = argparse.ArgumentParser()
    ap.add_argument("prop")
    ap.add_argument("--tier", default=os.environ.get("VERIF_TIER", "quick"), choices=["quick", "thorough"])
    ap.add_argument("--replay")
    ap.add_argument("--seed", type=int, default=None)
    a = ap.parse_args(argv)
    seed = a.seed if a.seed is not None else int(os.environ.get("VERIF_SEED", "1") or "1")
    prop = a.prop.upper()
    modname = f"vf.props.{prop.lower()}"
    t0 = time.time()
    try:
        setup_repo_import()
        mod = importlib.import_module(modname)
    except Exception:
        traceback.print_exc()
        print(f"HARNESS-ERROR property={prop} import failed")
        return 2

    known = load_known()
    known_buckets = {f["bucket"]: f for f in known.get("findings", []) if f.get("property") == prop}

    if a.replay:
        with open(a.replay) as f:
            rep = json.load(f)
        case = rep.get("case", rep)
        try:
            vios = mod.replay(unjson(case))
        except Exception:
            traceback.print_exc()
            return 2
        new = [v for v in vios if v["bucket"] not in known_buckets]
        for v in vios:
            tag = "KNOWN-FINDING:" if v["bucket"] in known_buckets else "VIOLATION-DETAIL"
            print(f"{tag} property={prop} bucket={v['bucket']} {v['what']}")
        if new:
            print(f"VIOLATION property={prop} replay={a.replay}")
            return 1
        print(f"replay: property {prop} holds on {a.replay}")
        return 0

    # replay tier: saved regression cases (shrunk failures of earlier runs and of seeded mutants)
    corpus_violations = []
    cdir = os.path.join(VERIF, "corpus", prop)
    ncorpus = 0
    if os.path.isdir(cdir) and hasattr(mod, "replay"):
        for fn in sorted(os.listdir(cdir)):
            if not fn.endswith(".json"):
                continue
            with open(os.path.join(cdir, fn)) as f:
                rep = json.load(f)
            try:
                vios = mod.replay(unjson(rep.get("case", rep)))
            except Exception:
                traceback.print_exc()
                print(f"HARNESS-ERROR property={prop} corpus replay {fn} failed")
                return 2
            ncorpus += 1
            for v in vios:
                corpus_violations.append({"bucket": v["bucket"], "what": f"[corpus {fn}] " + v["what"], "case": rep.get("case", rep)})

    try:
        tasks = mod.plan(a.tier, seed)
        raw = run_tasks(modname, tasks)
    except Exception:
        traceback.print_exc()
        print(f"HARNESS-ERROR property={prop}")
        return 2
    total = Result()
    herr = [r for r in raw if "harness_error" in r]
    if herr:
        for r in herr[:3]:
            print(r["harness_error"])
            print("task:", r["task"])
        print(f"HARNESS-ERROR property={prop} ({len(herr)} task(s) failed inside the harness)")
        return 2
    for r in raw:
        total.merge_dict(r)
    total.violations.extend(corpus_violations)
    total.extra["corpus_replays"] = ncorpus

    # classify violations
    by_bucket = collections.OrderedDict()
    for v in total.violations:
        by_bucket.setdefault(v["bucket"], []).append(v)
    new_buckets = [b for b in by_bucket if b not in known_buckets]
    rc = 0
    for b, vs in by_bucket.items():
        if b in known_buckets:
            print(f"KNOWN-FINDING: property={prop} bucket={b} ({len(vs)} case(s)) {known_buckets[b]['what']}")
    replay_paths = []
    for b in new_buckets:
        vs = by_bucket[b]
        # smallest case first (cheap stand-in for shrinking across collected failures)
        vs.sort(key=lambda v: len(json.dumps(v["case"])))
        v = vs[0]
        rdir = os.path.join(os.environ.get("VF_REPLAY_DIR") or os.path.join(VERIF, "replays"), prop)
        os.makedirs(rdir, exist_ok=True)
        path = os.path.join(rdir, f"{b.replace('/', '_')}-{chash(v['case'])}.json")
        with open(path, "w") as f:
            json.dump({"property": prop, "bucket": b, "what": v["what"], "case": v["case"]}, f, indent=1)
        replay_paths.append(path)
        print(f"VIOLATION-DETAIL property={prop} bucket={b} cases={len(vs)} {v['what']}")
        print(f"VIOLATION property={prop} replay={path}")
        rc = 1

    wall = time.time() - t0
    cov = {
        "evaluations": total.evaluations,
        "distinct_nontrivial": len(total.nontrivial),
        "rule": mod.RULE,
        "samples": total.samples[:6] or [{"note": "no sample recorded"}],
        "labels": dict(sorted(total.labels.items())),
        "excluded_known_findings": dict(total.excluded),
        "known_finding_buckets_seen": [b for b in by_bucket if b in known_buckets],
        "new_violation_buckets": new_buckets,
        "tasks": len(tasks),
    }
    cov.update(total.extra)
    if total.inconclusive:
        cov["inconclusive"] = total.inconclusive[:20]
        for msg in total.inconclusive[:5]:
            print(f"INCONCLUSIVE property={prop} {msg}")
    ev = {
        "property_id": prop,
        "tier": a.tier,
        "seed": seed,
        "level": mod.LEVEL,
        "coverage": cov,
        "assumptions": list(getattr(mod, "ASSUMPTIONS", [])),
        "wall_s": round(wall, 2),
        "violations": len(new_buckets),
    }
    evdir = os.environ.get("VF_EVIDENCE_DIR") or os.path.join(VERIF, "evidence")
    os.makedirs(evdir, exist_ok=True)
    with open(os.path.join(evdir, f"{prop}.json"), "w") as f:
        json.dump(ev, f, indent=1, sort_keys=True)
    print(
        f"{prop} tier={a.tier} seed={seed} evaluations={total.evaluations} "
        f"distinct_nontrivial={len(total.nontrivial)} known_buckets_seen={len(by_bucket) - len(new_buckets)} "
        f"new_violations={len(new_buckets)} wall={wall:.1f}s"
    )
    need = getattr(mod, "REQUIRED_LABELS", {}).get(a.tier, [])
    for lab in need:
        if total.labels.get(lab, 0) == 0:
            print(f"HARNESS-ERROR property={prop} generator never reached label '{lab}'")
            return 2 if rc == 0 else rc
    if rc == 0 and len(total.nontrivial) < 2:
        print(f"HARNESS-ERROR property={prop} fewer than 2 non-trivial cases")
        return 2
    return rc
