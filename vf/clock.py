"""Virtual clock for the modules that stamp metadata with datetime.now()."""
from __future__ import annotations

import contextlib
import datetime as _dt
import time as _time


class VClock:
    """mode 'real': every read advances by `step_ms`; 'manual': advances only by tick()."""

    def __init__(self, mode="real", start_ms=None, step_ms=3):
        self.mode = mode
        self.ms = int(start_ms if start_ms is not None else _time.time() * 1000)
        self.step_ms = step_ms
        self.reads = 0

    def read(self):
        self.reads += 1
        if self.mode == "real":
            self.ms += self.step_ms
        return self.ms

    def tick(self, delta_ms):
        self.ms += delta_ms


def _make_datetime_class(clock):
    class VDateTime(_dt.datetime):
        @classmethod
        def now(cls, tz=None):
            ms = clock.read()
            return _dt.datetime.fromtimestamp(ms / 1000.0, tz)

    return VDateTime


MODULES = ["datashard.metadata_manager", "datashard.snapshot_manager", "datashard.file_manager", "datashard.data_structures"]


@contextlib.contextmanager
def installed(clock):
    import importlib

    cls = _make_datetime_class(clock)
    saved = []
    for name in MODULES:
        m = importlib.import_module(name)
        if hasattr(m, "datetime"):
            saved.append((m, m.datetime))
            m.datetime = cls
    try:
        yield clock
    finally:
        for m, old in saved:
            m.datetime = old
