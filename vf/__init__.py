"""DataShard verification framework (property-based testing / fuzzing)."""
