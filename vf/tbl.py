"""Generators (Hypothesis strategies) for schemas / values / rows / filters, a plain-Python
three-valued reference evaluator for filters, and small helpers to drive the library."""
from __future__ import annotations

import datetime as dt
import math
import struct

from hypothesis import strategies as st

PRIMS = ["boolean", "int", "long", "float", "double", "date", "time", "timestamp", "string", "uuid", "binary"]
ORDERED = ["int", "long", "float", "double", "date", "time", "timestamp", "string", "uuid", "boolean"]


def f32(x: float) -> float:
    return struct.unpack("f", struct.pack("f", x))[0]


_I32 = [-(2**31), 2**31 - 1, -1, 0, 1, 2, 7, 100]
_I64 = [-(2**63), 2**63 - 1, 2**53, 2**53 + 1, -(2**53) - 1, -1, 0, 1, 2, 3, 10, 9]
_F64 = [0.0, -0.0, 1.0, -1.0, 0.5, 1.5, 2.0, 5.0, 1e300, -1e300, 5e-324, float("inf"), float("-inf"), float("nan"), 0.1, 2.0**53]
_F32 = [f32(v) for v in [0.0, -0.0, 1.0, -1.0, 0.5, 1.5, 2.0, 5.0, 3.4e38, -3.4e38, 1e-45, 0.1]] + [float("inf"), float("-inf"), float("nan")]
_STR = ["", "a", "b", "ab", "A", "10", "9", "09", "-1", "1e3", "true", "é", "日本", "\U0001f600", "z", " ", "a b",
        # long values sharing a long prefix (anything that abbreviates strings - statistics, bounds - must still order them)
        "p" * 64, "p" * 64 + "a", "p" * 64 + "b", "p" * 63 + "q", "https://example.org/" + "x" * 200 + "/1", "https://example.org/" + "x" * 200 + "/2", "é" * 40 + "z"]
_DATES = [dt.date(1970, 1, 1), dt.date(1969, 12, 31), dt.date(2024, 2, 29), dt.date(1, 1, 1), dt.date(9999, 12, 31), dt.date(2000, 1, 1)]
_TS = [dt.datetime(1970, 1, 1), dt.datetime(1969, 12, 31, 23, 59, 59, 999999), dt.datetime(2024, 2, 29, 12, 0, 0, 1),
       dt.datetime(2000, 1, 1), dt.datetime(2262, 1, 1), dt.datetime(1900, 1, 1, 0, 0, 0, 500000),
       # the whole range of timestamp[us] as python datetimes, with microseconds that a double cannot hold out there
       dt.datetime(1, 1, 1, 0, 0, 0, 1), dt.datetime(9999, 12, 31, 23, 59, 59, 999999), dt.datetime(2999, 12, 31, 23, 59, 59, 999999),
       dt.datetime(2600, 1, 1, 0, 0, 0, 1), dt.datetime(2600, 1, 1, 0, 0, 0, 2), dt.datetime(2600, 1, 1)]
_TIMES = [dt.time(0, 0, 0), dt.time(23, 59, 59, 999999), dt.time(12, 0), dt.time(0, 0, 0, 1)]
_BIN = [b"", b"\x00", b"a", b"ab", b"\xff\xfe", b"10", b"9"]
_UUIDS = ["00000000-0000-0000-0000-000000000000", "ffffffff-ffff-ffff-ffff-ffffffffffff", "123e4567-e89b-12d3-a456-426614174000"]


def value_strategy(typ: str, small: bool = False):
    """Values of the column's own python type that the arrow type represents exactly."""
    if typ == "boolean":
        return st.booleans()
    if typ == "int":
        return st.one_of(st.sampled_from(_I32), st.integers(-5, 5) if small else st.integers(-(2**31), 2**31 - 1))
    if typ == "long":
        return st.one_of(st.sampled_from(_I64), st.integers(-5, 5) if small else st.integers(-(2**63), 2**63 - 1))
    if typ == "double":
        return st.one_of(st.sampled_from(_F64), st.integers(-4, 4).map(float), st.floats(allow_nan=True, allow_infinity=True, width=64))
    if typ == "float":
        return st.one_of(st.sampled_from(_F32), st.integers(-4, 4).map(float), st.floats(allow_nan=True, allow_infinity=True, width=32))
    if typ == "string":
        return st.one_of(st.sampled_from(_STR), st.text(st.characters(blacklist_categories=("Cs",)), max_size=4),
                         st.tuples(st.sampled_from(["p" * 70, "k" * 300, "é" * 33]), st.text(st.sampled_from("abz"), max_size=2)).map(lambda t: t[0] + t[1]))
    if typ == "uuid":
        return st.sampled_from(_UUIDS)
    if typ == "binary":
        return st.one_of(st.sampled_from(_BIN), st.binary(max_size=4))
    if typ == "date":
        return st.one_of(st.sampled_from(_DATES), st.dates(dt.date(1900, 1, 1), dt.date(2100, 1, 1)))
    if typ == "timestamp":
        return st.one_of(st.sampled_from(_TS), st.datetimes(dt.datetime(1900, 1, 1), dt.datetime(2200, 1, 1)),
                         st.datetimes(dt.datetime(1, 1, 1), dt.datetime(9999, 12, 31, 23, 59, 59, 999999)))
    if typ == "time":
        return st.one_of(st.sampled_from(_TIMES), st.times())
    raise ValueError(typ)


@st.composite
def schema_fields(draw, min_fields=1, max_fields=4, types=None, allow_required=True):
    n = draw(st.integers(min_fields, max_fields))
    ids = draw(st.lists(st.integers(1, 40), min_size=n, max_size=n, unique=True))
    names = draw(st.lists(st.sampled_from(["a", "b", "c", "x", "y", "id", "val", "n_1", "Z"]), min_size=n, max_size=n, unique=True))
    out = []
    for i in range(n):
        t = draw(st.sampled_from(types or PRIMS))
        req = draw(st.booleans()) if allow_required else False
        out.append({"id": ids[i], "name": names[i], "type": t, "required": req})
    return out


@st.composite
def rows_for(draw, fields, min_rows=0, max_rows=6, null_p=True, small=False):
    n = draw(st.integers(min_rows, max_rows))
    rows = []
    for _ in range(n):
        r = {}
        for f in fields:
            vs = value_strategy(f["type"], small=small)
            if not f.get("required") and null_p:
                vs = st.one_of(st.none(), vs, vs, vs)
            r[f["name"]] = draw(vs)
        rows.append(r)
    return rows


def make_schema(fields, schema_id=1):
    from datashard import Schema

    return Schema(schema_id=schema_id, fields=[dict(f) for f in fields])


# ----------------------------------------------------------------------------------------------
# Filters: generator + reference evaluator
# ----------------------------------------------------------------------------------------------
CMP_OPS = {"==": "eq", "=": "eq", "eq": "eq", "!=": "ne", "<>": "ne", "ne": "ne", "<": "lt", "lt": "lt", "<=": "le",
           "le": "le", ">": "gt", "gt": "gt", ">=": "ge", "ge": "ge"}
IN_OPS = {"in": "in", "not_in": "not_in", "not in": "not_in", "notin": "not_in"}
NULL_OPS = {"is_null": "is_null", "isnull": "is_null", "is_not_null": "is_not_null", "notnull": "is_not_null", "isnotnull": "is_not_null"}


def _kind(v):
    if isinstance(v, bool):
        return "bool"
    if isinstance(v, (int, float)):
        return "num"
    if isinstance(v, str):
        return "str"
    if isinstance(v, (bytes, bytearray)):
        return "bin"
    if isinstance(v, dt.datetime):
        return "ts"
    if isinstance(v, dt.date):
        return "date"
    if isinstance(v, dt.time):
        return "time"
    return "other"


class Incomparable(Exception):
    pass


def _cmp(op, a, b):
    """SQL three-valued comparison with IEEE NaN: returns True / False / None(unknown)."""
    if a is None or b is None:
        return None
    if _kind(a) != _kind(b):
        raise Incomparable()
    if _kind(a) == "num" and (isinstance(a, float) and math.isnan(a) or isinstance(b, float) and math.isnan(b)):
        return op == "ne"
    if op == "eq":
        return a == b
    if op == "ne":
        return a != b
    if op == "lt":
        return a < b
    if op == "le":
        return a <= b
    if op == "gt":
        return a > b
    if op == "ge":
        return a >= b
    raise ValueError(op)


def eval_condition(v, cond):
    """cond is the user-level condition (bare value or (op, operand))."""
    if isinstance(cond, tuple) and len(cond) == 2:
        op, operand = cond
        opl = op.lower() if isinstance(op, str) else op
        if opl == "between":
            lo, hi = operand
            a, b = _cmp("ge", v, lo), _cmp("le", v, hi)
            if a is False or b is False:
                return False
            if a is None or b is None:
                return None
            return True
        if opl in NULL_OPS:
            return (v is None) if NULL_OPS[opl] == "is_null" else (v is not None)
        if opl in IN_OPS:
            vals = [x for x in operand if x is not None]
            if v is None:
                return None
            if any(isinstance(x, float) and math.isnan(x) for x in vals) or (isinstance(v, float) and math.isnan(v) and IN_OPS[opl] == "in" and False):
                raise NaNInSet()
            hit = False
            for x in vals:
                if _kind(x) != _kind(v):
                    raise Incomparable()
                if _cmp("eq", v, x):
                    hit = True
            return hit if IN_OPS[opl] == "in" else (not hit)
        if opl in CMP_OPS:
            return _cmp(CMP_OPS[opl], v, operand)
        raise ValueError(f"unknown op {op!r}")
    if cond is None:
        raise ValueError("None condition")
    return _cmp("eq", v, cond)


class NaNInSet(Exception):
    """NaN inside an in/not_in value set: SQL/IEEE and Arrow disagree; the reference is silent."""


def eval_filter(row, flt):
    res = True
    for col, cond in flt.items():
        r = eval_condition(row.get(col), cond)
        if r is False:
            return False
        if r is None:
            res = None
    return res


def reference_scan(rows, flt, columns=None):
    out = []
    for r in rows:
        if not flt or eval_filter(r, flt) is True:
            out.append(r if columns is None else {c: r[c] for c in columns})
    return out


def literal_strategy(typ, data_values):
    """Literals for a column: values present in the data, neighbours, and fresh values of the type."""
    pool = [v for v in data_values if v is not None]
    base = value_strategy(typ, small=True)
    if pool:
        return st.one_of(st.sampled_from(pool), base)
    return base


@st.composite
def condition_for(draw, typ, data_values, allow_bare=True, ops=None):
    lit = literal_strategy(typ, data_values)
    kinds = ["cmp", "cmp", "cmp", "in", "between", "null"] + (["bare"] if allow_bare else [])
    k = draw(st.sampled_from(kinds))
    if k == "bare":
        return draw(lit)
    if k == "cmp":
        op = draw(st.sampled_from(ops or sorted(CMP_OPS)))
        return (op, draw(lit))
    if k == "in":
        op = draw(st.sampled_from(sorted(IN_OPS)))
        vals = draw(st.lists(st.one_of(lit, lit, st.none()), max_size=4))
        return (op, vals)
    if k == "between":
        a, b = draw(lit), draw(lit)
        return ("between", (a, b))
    op = draw(st.sampled_from(sorted(NULL_OPS)))
    return (op, True)


@st.composite
def filter_for(draw, fields, rows, max_cols=2):
    fs = [f for f in fields if f["type"] != "binary" or True]
    n = draw(st.integers(1, min(max_cols, len(fs))))
    cols = draw(st.lists(st.sampled_from(fs), min_size=n, max_size=n, unique_by=lambda f: f["name"]))
    flt = {}
    for f in cols:
        vals = [r.get(f["name"]) for r in rows]
        flt[f["name"]] = draw(condition_for(f["type"], vals))
    return flt


def has_nan(x):
    if isinstance(x, float):
        return math.isnan(x)
    if isinstance(x, (list, tuple)):
        return any(has_nan(y) for y in x)
    if isinstance(x, dict):
        return any(has_nan(y) for y in x.values())
    return False
