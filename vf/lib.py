"""Thin helpers around the library's public API (used by every property module)."""
from __future__ import annotations

import contextlib
import os


def new_table(path, fields=None, schema_id=1):
    import datashard
    from .tbl import make_schema

    return datashard.create_table(path, make_schema(fields, schema_id) if fields is not None else None)


def load(path):
    import datashard

    return datashard.load_table(path)


@contextlib.contextmanager
def patched(obj, name, value):
    old = getattr(obj, name)
    setattr(obj, name, value)
    try:
        yield old
    finally:
        setattr(obj, name, old)


@contextlib.contextmanager
def no_pruning():
    import datashard.filters as F

    with patched(F, "prune_files_by_bounds", lambda data_files, expressions, schema: data_files):
        yield


@contextlib.contextmanager
def spy_pruning(log):
    """Record (kept, total) file paths for every pruning call."""
    import datashard.filters as F

    orig = F.prune_files_by_bounds

    def spy(data_files, expressions, schema):
        kept = orig(data_files, expressions, schema)
        log.append(([d.file_path for d in data_files], [d.file_path for d in kept]))
        return kept

    with patched(F, "prune_files_by_bounds", spy):
        yield


READ_APIS = ["scan", "scan_par2", "batches1", "batches2", "batches_big", "iter_records"]


def setup_append(table, rows, **kw):
    """append_records as a SET-UP step of a check about something else (see common.SetupRejected)."""
    from .common import SetupRejected

    try:
        return table.append_records(rows, **kw)
    except Exception as e:
        raise SetupRejected(f"{type(e).__name__}: {e}") from e


def run_read(table, api, flt=None, columns=None, verify=None):
    """Run one read API and return the list of row dicts."""
    kw = {"filter": flt, "columns": columns, "verify_checksums": verify}
    if api == "scan":
        return table.scan(**kw)
    if api == "scan_par2":
        return table.scan(parallel=2, **kw)
    if api == "scan_parT":
        return table.scan(parallel=True, **kw)
    if api.startswith("batches"):
        bs = {"batches1": 1, "batches2": 2, "batches3": 3, "batches_big": 10000}[api]
        out = []
        for b in table.scan_batches(batch_size=bs, **kw):
            out.extend(b)
        return out
    if api == "iter_records":
        return list(table.iter_records(**kw))
    raise ValueError(api)


def set_age(path, seconds_old):
    import time

    t = time.time() - seconds_old
    os.utime(path, (t, t))


def age_tree(root, seconds_old, only=None):
    for r, _d, fs in os.walk(root):
        for f in fs:
            p = os.path.join(r, f)
            if os.path.islink(p):
                continue  # never touch what a symlink points at
            if only is None or only(os.path.relpath(p, root)):
                set_age(p, seconds_old)
