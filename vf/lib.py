"""Thin helpers around the library's public API (used by every property module)."""
from __future__ import annotations

import contextlib
import os


def new_table(path, fields=None, schema_id=1):
    import datashard
    from .tbl import make_schema

    return datashard.create_table(path, make_schema(fields, schema_id) if fields is not None else None)


def load(path):
    import datashard

    return datashard.load_table(path)


@contextlib.contextmanager
def patched(obj, name, value):
    old = getattr(obj, name)
    setattr(obj, name, value)
    try:
        yield old
    finally:
        setattr(obj, name, old)


@contextlib.contextmanager
def no_pruning():
    import datashard.filters as F

    with patched(F, "prune_files_by_bounds", lambda data_files, expressions, schema: data_files):
        yield


@contextlib.contextmanager
def spy_pruning(log):
    """Record (kept, total) file paths for every pruning call."""
    import datashard.filters as F

    orig = F.prune_files_by_bounds

    def spy(data_files, expressions, schema):
        kept = orig(data_files, expressions, schema)
        log.append(([d.file_path for d in data_files], [d.file_path for d in kept]))
        return kept

    with patched(F, "prune_files_by_bounds", spy):
        yield


READ_APIS = ["scan", "scan_par2", "batches1", "batches2", "batches_big", "iter_records", "batches3_keep"]


def setup_append(table, rows, **kw):
    """append_records as a SET-UP step of a check about something else (see common.SetupRejected)."""
    from .common import SetupRejected

    try:
        return table.append_records(rows, **kw)
    except Exception as e:
        raise SetupRejected(f"{type(e).__name__}: {e}") from e


CONTAINERS = ["list", "tuple", "set", "gen", "map", "iter", "dictkeys", "deque", "range"]


def in_container(flt, kind):
    """The same filter with the value sets of its in / not_in conditions handed over in another container type. One-shot iterators
    (generator, map, iter) are built afresh on every call: a caller passes such an object once per query."""
    if not flt or kind in (None, "list"):
        return flt
    out = {}
    for col, cond in flt.items():
        if isinstance(cond, tuple) and len(cond) == 2 and str(cond[0]).lower() in ("in", "not_in", "not in", "notin") and isinstance(cond[1], (list, tuple)):
            vals = list(cond[1])
            try:
                distinct = len(set(vals)) == len(vals)  # [1, True] or [0.0, -0.0] collapse in a set: keep such value sets as they are
            except TypeError:
                distinct = False
            if kind in ("set", "dictkeys") and not distinct:
                c = vals
            elif kind == "tuple":
                c = tuple(vals)
            elif kind == "set":
                try:
                    c = set(vals)
                except TypeError:
                    c = vals
            elif kind == "gen":
                c = (v for v in vals)
            elif kind == "map":
                c = map(lambda v: v, vals)
            elif kind == "iter":
                c = iter(vals)
            elif kind == "dictkeys":
                try:
                    c = dict.fromkeys(vals).keys()
                except TypeError:
                    c = vals
            elif kind == "deque":
                import collections

                c = collections.deque(vals)
            elif kind == "range" and vals and all(isinstance(v, int) and not isinstance(v, bool) for v in vals) and max(vals) - min(vals) + 1 == len(vals) and len(set(vals)) == len(vals):
                c = range(min(vals), max(vals) + 1)
            else:
                c = vals
            out[col] = (cond[0], c)
        else:
            out[col] = cond
    return out


def run_read(table, api, flt=None, columns=None, verify=None, container=None):
    """Run one read API and return the list of row dicts."""
    kw = {"filter": in_container(flt, container), "columns": columns, "verify_checksums": verify}
    if api == "scan":
        return table.scan(**kw)
    if api == "scan_par2":
        return table.scan(parallel=2, **kw)
    if api == "scan_parT":
        return table.scan(parallel=True, **kw)
    if api == "batches3_keep":
        # the caller collects the batches first and looks at them afterwards: a yielded batch belongs to the caller
        kept = list(table.scan_batches(batch_size=3, **kw))
        return [r for b in kept for r in b]
    if api.startswith("batches"):
        bs = {"batches1": 1, "batches2": 2, "batches3": 3, "batches_big": 10000}[api]
        out = []
        for b in table.scan_batches(batch_size=bs, **kw):
            out.extend(b)
        return out
    if api == "iter_records":
        return list(table.iter_records(**kw))
    raise ValueError(api)


def set_age(path, seconds_old):
    import time

    t = time.time() - seconds_old
    os.utime(path, (t, t))


def age_tree(root, seconds_old, only=None):
    for r, _d, fs in os.walk(root):
        for f in fs:
            p = os.path.join(r, f)
            if os.path.islink(p):
                continue  # never touch what a symlink points at
            if only is None or only(os.path.relpath(p, root)):
                set_age(p, seconds_old)
